// lbzsim -- deterministic simulator for lbzip2: fibers, seeded scheduler, kernel model.
// See /verif/DESIGN.md section 2.
#pragma once
#include <cstdint>
#include <map>
#include <string>
#include <utility>
#include <vector>

namespace sim {

typedef std::string Bytes;

// ---------------------------------------------------------------- PRNG
struct Rng {
  uint64_t s;
  explicit Rng(uint64_t seed = 0) : s(seed) {}
  uint64_t next() {
    uint64_t z = (s += 0x9E3779B97F4A7C15ull);
    z = (z ^ (z >> 30)) * 0xBF58476D1CE4E5B9ull;
    z = (z ^ (z >> 27)) * 0x94D049BB133111EBull;
    return z ^ (z >> 31);
  }
  uint64_t below(uint64_t n) { return n ? next() % n : 0; }
  uint64_t range(uint64_t lo, uint64_t hi) { return lo + below(hi - lo + 1); }  // inclusive
  bool chance(uint64_t num, uint64_t den) { return below(den) < num; }
  Rng fork() { return Rng(next() ^ 0xD1B54A32D192ED03ull); }
};
inline uint64_t mix64(uint64_t a, uint64_t b) {
  Rng r(a ^ (b * 0x9E3779B97F4A7C15ull + 0x7F4A7C15ull));
  return r.next();
}
inline uint64_t fnv(uint64_t h, uint64_t x) { return (h ^ x) * 0x100000001B3ull; }
uint64_t hash_bytes(const void *p, size_t n, uint64_t h = 14695981039346656037ull);

// ---------------------------------------------------------------- world
enum { T_REG = 1, T_DIR, T_LNK, T_FIFO, T_CHR };

struct Inode {
  int type = T_REG;
  Bytes data;               // file content, or link target for T_LNK
  unsigned mode = 0644;     // permission bits (07777)
  unsigned uid = 1000, gid = 1000;
  unsigned nlink = 0;       // maintained by World::link()
  int64_t atime_s = 1500000000, atime_ns = 123456789;
  int64_t mtime_s = 1400000000, mtime_ns = 987654321;
  bool noread = false;      // open(O_RDONLY) fails with EACCES
  bool created = false;     // created during the run by open(O_CREAT)
  bool closed_ok = false;   // last writing descriptor was closed successfully
  unsigned open_wr = 0;     // number of open writing descriptors
  int64_t visible = -1;     // "growing file" fault: only this many bytes exist (stat size, readable) until read #grow_at on the file, or
  int grow_at = 0;          // until a read would otherwise report end of file - then all of `data` is there.  -1: not growing
  unsigned reads = 0;
};

enum { K_FILE = 0, K_PIPE, K_TTY, K_NULL };
enum { FR_FULL = 0, FR_RANDOM, FR_ONE, FR_SHORT1, FR_FIXED };

struct Frag {           // how read()/write() counts are cut
  int mode = FR_FULL;
  uint32_t param = 0;   // FR_FIXED: chunk size; FR_RANDOM: 1/param probability of a cut (0 = always)
};

struct World {
  std::vector<Inode> inodes;
  std::map<std::string, int> dir;     // name -> inode index
  int in_kind = K_FILE;               // what descriptor 0 is
  Bytes in_data;
  Frag in_frag;
  int out_kind = K_FILE;              // what descriptor 1 is
  Frag out_frag;
  int64_t out_close_after = -1;       // K_PIPE: reader goes away after this many bytes (EPIPE)
  int64_t out_size_limit = -1;        // file size limit (EFBIG)
  bool err_tty = false;               // isatty(2)
  Frag file_frag;                     // fragmentation of reads from FILE operands

  int add(const std::string &name, const Inode &ino);     // new inode + name
  void link(const std::string &name, int ino);            // extra hard link
  const Inode *lookup(const std::string &name) const;     // no symlink following
  bool exists(const std::string &name) const { return dir.count(name) != 0; }
};

// ---------------------------------------------------------------- faults
enum Call { C_NONE = 0, C_READ, C_WRITE, C_CLOSE, C_UNLINK, C_FCHOWN, C_FCHMOD, C_FUTIMENS,
            C_OPEN, C_LSTAT, C_FSTAT, C_STDERR, C_MALLOC, C_NCALLS };   // C_MALLOC: a malloc() of at least 64 KiB (k counts only those)   // C_STDERR: an fprintf/vfprintf/fflush on stderr
const char *call_name(int c);
enum Role { R_ANY = 0, R_IN = 1, R_OUT = 2 };   // descriptor/path role

struct Fault {          // "the k-th <call> on an object of <role> fails with <err>"
  int call = C_NONE;
  int role = R_ANY;
  int k = 0;            // 0-based, counted per (call, role)
  int err = 5;          // errno
  int64_t partial = 0;  // C_WRITE only: accept this many bytes first, fail the following write
  bool fired = false;   // out
  uint64_t fired_step = 0;
};

struct SigEvent {       // external signal at a decision step (SIGINT, SIGTERM, SIGKILL)
  uint64_t step = 0;
  int sig = 0;
  bool fired = false;
};

// ---------------------------------------------------------------- schedule
enum Policy { P_DEFAULT = 0, P_RANDOM, P_STICKY, P_PCT, P_STARVE, P_PHASES, P_NPOLICIES };
const char *policy_name(int p);
enum FiberClass { FC_MAIN = 0, FC_PRIMARY, FC_WORKER, FC_SOURCE, FC_SINK, FC_OTHER, FC_NCLASSES };
const char *class_name(int c);
extern const uint32_t starve_masks[];     // curated P_STARVE parameters
extern const unsigned n_starve_masks;

struct Sched {
  int policy = P_RANDOM;
  uint64_t seed = 1;
  uint32_t param = 8;          // sticky: 1/param switch probability; starve: class bitmask; pct: depth
  uint32_t spurious = 0;       // 1/spurious chance per decision of a spurious cond wake-up (0 = never)
  uint32_t preempt = 0;        // "preempt" variant only: mean number of instrumented memory accesses between preemption points inside unsynchronised code (0 = none)
  std::string stall_task;      // "slow node" fault: the stall_k-th time any worker begins the task of this name, that thread is not scheduled
  uint32_t stall_k = 0;        // for the next stall_len decisions unless nothing else can run (0 = no stall); it holds its job meanwhile
  uint32_t stall_len = 0;
  bool explicit_ = false;      // true: ignore policy, use devs over the default policy
  std::vector<std::pair<uint32_t, uint32_t>> devs;   // (choice index, value) deviations from default
};

// ---------------------------------------------------------------- plan
struct Plan {
  std::vector<std::string> argv;                 // argv[0] = program name
  std::map<std::string, std::string> env;
  int ncpu = 4;
  unsigned umask = 022;        // file mode creation mask of the simulated process
  int nofile = 1024;           // RLIMIT_NOFILE of the simulated process: open() fails with EMFILE beyond it (descriptor leaks must show, seeded change C17-4)
  uint64_t inherit_mask = 0;   // signals blocked in the mask the process inherits from its parent (bit s = signal s; seeded change C15-4)
  bool ign_pipe = false, ign_xfsz = false;       // inherited SIG_IGN
  size_t in_granul = 0, out_granul = 0, copy_granul = 0;   // H1 knobs, 0 = shipped value
  World world;
  std::vector<Fault> faults;
  std::vector<SigEvent> sigs;
  Sched sched;
  uint64_t step_budget = 0;       // 0 = automatic
  uint8_t junk = 0xA5;            // heap fill byte
  bool trace = false;             // keep event/task trace
  bool monitors = true;           // scheduler probes at every decision
};

// ---------------------------------------------------------------- result
enum ExitKind { X_EXIT = 0, X_SIGNAL, X_DEADLOCK, X_BUDGET, X_KILLED, X_MONITOR };

struct Event { uint32_t step; uint16_t fiber; uint8_t cls; uint8_t op; int64_t a, r; };
struct TaskEv { uint32_t step; uint16_t fiber; const char *name; };

struct Result {
  int kind = X_EXIT;
  int code = 0;                 // exit status or signal number
  bool aborted = false;         // abort()/assert
  std::string abort_msg;
  Bytes out;                    // bytes accepted on descriptor 1
  std::string err;              // stderr text
  World world;                  // final file system
  uint64_t steps = 0;           // decision points
  uint64_t choices = 0;         // recorded choices
  uint64_t hash = 0;            // full history hash
  uint64_t ihash = 0;           // hash of (class, op) projection of the schedule
  uint64_t preemptions = 0;     // decisions that switched away from an enabled current fiber
  uint32_t unreaped_threads = 0;   // threads that ended without ever being joined or detached (their stacks stay mapped in a real process)
  uint32_t file_grew = 0;       // "growing input file" faults that took effect
  uint32_t stalls_fired = 0;    // stall faults that took effect
  uint64_t inregion_points = 0, inregion_preemptions = 0;   // "preempt" variant: decision points offered inside unsynchronised code / those that switched threads
  unsigned max_live_fibers = 0;
  size_t peak_heap = 0, final_heap = 0;
  uint64_t sim_ns = 0;
  std::string monitor;          // first monitor violation ("" = none)
  std::string deadlock_info;
  unsigned calls[C_NCALLS][3] = {};     // per (call, role) counts
  uint64_t main_steps_after_fault = 0;  // how often the main thread ran after the first fired fault
  std::vector<Fault> faults;    // with fired flags
  std::vector<SigEvent> sigs;
  std::vector<std::pair<uint32_t, uint32_t>> devs;   // recorded deviations (replayable schedule)
  std::map<std::string, unsigned> reach;     // reach probes and task names
  std::map<std::string, std::pair<unsigned, unsigned>> qmax;   // queue -> (max size seen, capacity)
  std::vector<uint64_t> states;              // distinct scheduler-state hashes (capped)
  std::vector<Event> events;    // if plan.trace
  std::vector<TaskEv> tasks;    // if plan.trace
  unsigned spurious_fired = 0, frag_cuts = 0, short_writes = 0;
  unsigned in_granul_used = 0, out_granul_used = 0;

  bool exited(int c) const { return kind == X_EXIT && code == c; }
  std::string describe() const;
};

void preempt_access();           // called by the instrumentation hooks of the "preempt" variant
void init();                     // once per process
Result run(const Plan &plan);    // one simulated lbzip2 process
const char *variant();           // "plain", "ndebug", "asan", "tsan"

}  // namespace sim
