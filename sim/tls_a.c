/* Marker object linked immediately BEFORE the lbzip2 objects (tools/build.sh): together with tls_z.c it delimits the part of the
   executable's TLS block that belongs to lbzip2, so that the simulator can give every simulated thread (fiber) its own copy. */
__thread char sim_tls_d_begin = 1;   /* .tdata */
__thread char sim_tls_b_begin;       /* .tbss  */
