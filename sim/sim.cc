// lbzsim core: fibers, seeded scheduler, kernel model and the libc/pthread shims
// that the (objcopy-redirected) lbzip2 objects call.  See DESIGN.md section 2.
#define _GNU_SOURCE 1
#include <valgrind/memcheck.h>   // client requests: no-ops (a few instructions) unless the process runs under valgrind ("vg" variant)
#include "sim.h"

#include <elf.h>
#include <errno.h>
#include <fcntl.h>
#include <malloc.h>
#include <pthread.h>
#include <signal.h>
#include <stdarg.h>
#include <stdio.h>
#include <stdlib.h>
#include <string.h>
#include <sys/mman.h>
#include <sys/stat.h>
#include <sys/time.h>
#include <time.h>
#include <unistd.h>

#include <algorithm>
#include <map>
#include <unordered_map>
#include <unordered_set>

#ifdef SIM_TSAN
#include <sanitizer/tsan_interface.h>
#define TS_ACQ(p) __tsan_acquire((void *)(p))
#define TS_REL(p) __tsan_release((void *)(p))
extern "C" void __tsan_read_range(void *addr, unsigned long size);
extern "C" void AnnotateIgnoreReadsBegin(const char *f, int l);
extern "C" void AnnotateIgnoreReadsEnd(const char *f, int l);
extern "C" void AnnotateIgnoreWritesBegin(const char *f, int l);
extern "C" void AnnotateIgnoreWritesEnd(const char *f, int l);
#define TS_IGN_BEGIN() (AnnotateIgnoreReadsBegin(__FILE__, __LINE__), AnnotateIgnoreWritesBegin(__FILE__, __LINE__))
#define TS_IGN_END() (AnnotateIgnoreWritesEnd(__FILE__, __LINE__), AnnotateIgnoreReadsEnd(__FILE__, __LINE__))
#else
#define TS_IGN_BEGIN() ((void)0)
#define TS_IGN_END() ((void)0)
#define TS_ACQ(p) ((void)0)
#define TS_REL(p) ((void)0)
#endif
#ifdef SIM_ASAN
#include <sanitizer/asan_interface.h>
#include <sanitizer/common_interface_defs.h>
#endif

#ifndef SIM_VARIANT
#define SIM_VARIANT "plain"
#endif

// ------------------------------------------------------------------ lbzip2 side
extern "C" {
int lbzip2_main(int, char **);
extern char __start_lbz_data[], __stop_lbz_data[], __start_lbz_bss[], __stop_lbz_bss[];
extern unsigned work_units, in_slots, out_slots, total_in_slots, total_out_slots, num_worker;
struct verif_q { const char *name; const void *root; unsigned size; unsigned elem; };
unsigned verif_probe_process(struct verif_q *q, unsigned max, long *st);
unsigned verif_probe_compress(struct verif_q *q, unsigned max, long *st);
unsigned verif_probe_expand(struct verif_q *q, unsigned max, long *st);
}

namespace sim {

uint64_t hash_bytes(const void *p, size_t n, uint64_t h) {
  const unsigned char *b = (const unsigned char *)p;
  // 8 bytes at a time, then tail
  size_t i = 0;
  for (; i + 8 <= n; i += 8) { uint64_t w; memcpy(&w, b + i, 8); h = fnv(h, w); h ^= h >> 29; }
  for (; i < n; i++) h = fnv(h, b[i]);
  return fnv(h, n);
}

const char *call_name(int c) {
  static const char *n[] = {"none", "read", "write", "close", "unlink", "fchown", "fchmod", "futimens", "open", "lstat", "fstat", "stderr", "malloc"};
  return c >= 0 && c < C_NCALLS ? n[c] : "?";
}
const char *policy_name(int p) {
  static const char *n[] = {"default", "random", "sticky", "pct", "starve", "phases"};
  return p >= 0 && p < P_NPOLICIES ? n[p] : "?";
}
const char *class_name(int c) {
  static const char *n[] = {"main", "primary", "worker", "source", "sink", "other"};
  return c >= 0 && c < FC_NCLASSES ? n[c] : "?";
}
const char *variant() { const char *e = getenv("VERIF_VARIANT"); return e && *e ? e : SIM_VARIANT; }   // ndebug variants share the harness objects

int World::add(const std::string &name, const Inode &ino) {
  inodes.push_back(ino);
  inodes.back().nlink = 0;
  int i = (int)inodes.size() - 1;
  link(name, i);
  return i;
}
void World::link(const std::string &name, int ino) { dir[name] = ino; inodes[ino].nlink++; }
const Inode *World::lookup(const std::string &name) const {
  auto it = dir.find(name);
  return it == dir.end() ? nullptr : &inodes[it->second];
}

// ------------------------------------------------------------------ symbol table
struct Sym { uintptr_t addr; size_t size; std::string name; };
static std::vector<Sym> g_syms;

static void load_symtab() {
  int fd = open("/proc/self/exe", O_RDONLY);
  if (fd < 0) return;
  struct stat st;
  if (fstat(fd, &st) != 0) { close(fd); return; }
  void *m = mmap(0, st.st_size, PROT_READ, MAP_PRIVATE, fd, 0);
  close(fd);
  if (m == MAP_FAILED) return;
  const char *base = (const char *)m;
  const Elf64_Ehdr *eh = (const Elf64_Ehdr *)base;
  const Elf64_Shdr *sh = (const Elf64_Shdr *)(base + eh->e_shoff);
  for (int i = 0; i < eh->e_shnum; i++) {
    if (sh[i].sh_type != SHT_SYMTAB) continue;
    const Elf64_Sym *sy = (const Elf64_Sym *)(base + sh[i].sh_offset);
    size_t n = sh[i].sh_size / sizeof(Elf64_Sym);
    const char *str = base + sh[sh[i].sh_link].sh_offset;
    for (size_t k = 0; k < n; k++) {
      int t = ELF64_ST_TYPE(sy[k].st_info);
      if ((t == STT_FUNC || t == STT_OBJECT) && sy[k].st_value)
        g_syms.push_back({(uintptr_t)sy[k].st_value, (size_t)sy[k].st_size, str + sy[k].st_name});
    }
  }
  munmap(m, st.st_size);
  std::sort(g_syms.begin(), g_syms.end(), [](const Sym &a, const Sym &b) { return a.addr < b.addr; });
}
static const char *sym_of(const void *p) {
  uintptr_t a = (uintptr_t)p;
  size_t lo = 0, hi = g_syms.size();
  while (lo < hi) { size_t mid = (lo + hi) / 2; if (g_syms[mid].addr <= a) lo = mid + 1; else hi = mid; }
  if (!lo) return nullptr;
  const Sym &s = g_syms[lo - 1];
  if (a < s.addr + (s.size ? s.size : 1)) return s.name.c_str();
  return nullptr;
}

// ------------------------------------------------------------------ run state
enum { ST_FREE = 0, ST_RUN, ST_MUTEX, ST_COND, ST_JOIN, ST_SIGWAIT, ST_FLOCK, ST_DONE };
enum Op { OP_START = 1, OP_LOCK, OP_WAIT, OP_SIGNAL, OP_BCAST, OP_CREATE, OP_JOIN, OP_TEXIT, OP_FLOCK,
          OP_READ, OP_WRITE, OP_CLOSE, OP_OPEN, OP_UNLINK, OP_STAT, OP_META, OP_KILL, OP_SIGSUSP,
          OP_PEXIT, OP_SIGRUN, OP_WAKE, OP_TASK, OP_ISATTY, OP_PREEMPT };

#define BIT(s) (1ull << (s))
#define MAXF 640      // simulated threads per run (every operand of an invocation creates its own set)
#ifdef SIM_ASAN
#define STK (4u << 20)
#else
#define STK (1u << 20)
#endif

struct Fiber {
  void *sp = nullptr;                 // saved stack pointer (sim_switch)
  char *stack = nullptr;
  int state = ST_FREE;
  const void *obj = nullptr;          // what it is blocked on
  const void *cond_mutex = nullptr;   // mutex to re-acquire after cond wait
  void *(*fn)(void *) = nullptr;
  void *arg = nullptr;
  uint64_t mask = 0, tpend = 0, wait_mask = 0;
  int cls = FC_OTHER;
  int widx = 0;                       // worker index within class
  uint64_t prio = 0;                  // PCT
  void *ts = nullptr;                 // tsan fiber
  int shim_depth = 0;                 // tsan: nesting of simulator code (accesses ignored)
  bool reaped = false;                // joined or detached: its stack and descriptor are released when it ends
  int saved_errno = 0;                // errno is thread-local in reality; all fibers share the OS thread's
  std::vector<char> tls;              // this thread's copy of lbzip2's thread-local storage (empty unless a change introduces TLS)
  uint64_t stalled_until = 0;         // stall fault: not scheduled before this decision step while anything else can run
};

struct FdEnt { bool open = false; int ino = -1; int role = R_ANY; bool rd = false, wr = false; size_t off = 0; int stdno = -1; bool fail_next = false; int fail_err = 0; };

struct Mutex { int owner = -1; };

struct State {
  const Plan *plan = nullptr;
  Result *res = nullptr;
  Fiber F[MAXF];
  int nf = 0, cur = -1;
  void *root_sp = nullptr;
  void *root_ts = nullptr;
  bool over = false;
  Rng rng{0};
  // choices
  uint32_t nchoice = 0;
  size_t devpos = 0;
  // policy state
  int subpolicy = P_RANDOM;
  uint32_t subparam = 8;
  uint64_t phase_until = 0;
  std::vector<uint64_t> pct_points;
  uint64_t pct_low = 0;
  // sync objects
  std::unordered_map<const void *, Mutex> mtx;
  int flock_owner = -1, flock_depth = 0;
  // signals
  uint64_t ppend = 0;
  void (*handler[65])(int);
  uint8_t disp[65];   // 0 DFL, 1 IGN, 2 handler
  // fds, fs
  World world;
  std::vector<FdEnt> fds;
  size_t in_pos = 0;
  int64_t out_accepted = 0;
  // heap
  std::unordered_map<void *, size_t> live;
  std::map<size_t, size_t> arena_free;      // private arena: free extents (offset -> length), address ordered
  std::map<size_t, size_t> poisoned;        // freed blocks whose first bytes still carry the 0xDD poison (offset -> poisoned length)
  bool arena_used = false;
  std::unordered_set<void *> freed;     // blocks of this run that were freed and not handed out again: a second free() is reported, not passed to libc
  size_t live_bytes = 0;
  // env copies
  std::vector<char *> envbuf;
  // misc
  uint64_t first_fault_step = 0;
  bool fault_seen = false;
  unsigned call_cnt[C_NCALLS][3];
  std::unordered_set<uint64_t> states;
  int nworkers_created = 0;
  uint64_t emit_credit = 0;          // emit tasks begun (capped)
  uint64_t io_progress = 0;          // read()/write() calls that transferred at least one byte
  uint64_t preempt_steps = 0;
  int64_t preempt_countdown = 0;     // "preempt" variant: instrumented accesses until the next preemption point (<= 0: none pending)
  std::unordered_map<const void *, int> objid;   // address-independent ids for the history hash
  std::vector<std::string> argv_copy;
  std::vector<char *> argv_ptrs;
};
static State *S;
static char *g_snap;
static size_t g_dn, g_bn;
static std::vector<char *> g_stacks;

__attribute__((unused)) static uint64_t real_ns() { struct timespec t; clock_gettime(CLOCK_MONOTONIC, &t); return t.tv_sec * 1000000000ull + t.tv_nsec; }

__attribute__((no_sanitize("address", "thread"), noinline)) static void rawcpy(char *d, const char *s, size_t n) {
  for (size_t i = 0; i < n; i++) ((volatile char *)d)[i] = s[i];
}
__attribute__((no_sanitize("address", "thread"), noinline)) static void rawzero(char *d, size_t n) {
  for (size_t i = 0; i < n; i++) ((volatile char *)d)[i] = 0;
}

// TSan: everything the simulator itself does on a fiber (its containers are
// shared by all fibers and touched through intercepted libc calls) must be
// invisible to the race detector; only lbzip2's own accesses and the
// semantic effects of system calls (user_copy) count.
#ifdef SIM_TSAN
static inline void shim_enter() { if (S && S->cur >= 0 && S->F[S->cur].shim_depth++ == 0) TS_IGN_BEGIN(); }
static inline void shim_leave() { if (S && S->cur >= 0 && --S->F[S->cur].shim_depth == 0) TS_IGN_END(); }
static inline void shim_suspend() { if (S && S->cur >= 0 && S->F[S->cur].shim_depth > 0) TS_IGN_END(); }
static inline void shim_resume() { if (S && S->cur >= 0 && S->F[S->cur].shim_depth > 0) TS_IGN_BEGIN(); }
#else
// the nesting depth is kept in every variant: the "preempt" variant must not preempt inside simulator code
static inline void shim_enter() { if (S && S->cur >= 0) S->F[S->cur].shim_depth++; }
static inline void shim_leave() { if (S && S->cur >= 0) S->F[S->cur].shim_depth--; }
static inline void shim_suspend() {}
static inline void shim_resume() {}
#endif
// semantic memory effects of system calls, visible to TSan
static inline void user_write(void *dst, const void *src, size_t n) { shim_suspend(); memcpy(dst, src, n); shim_resume(); }
#ifdef SIM_TSAN
static inline void user_read(const void *p, size_t n) { shim_suspend(); __tsan_read_range((void *)p, n); shim_resume(); }
#else
static inline void user_read(const void *, size_t) {}
#endif
struct ShimGuard { ShimGuard() { shim_enter(); } ~ShimGuard() { shim_leave(); } };
#define SHIM ShimGuard shim_guard_

// ------------------------------------------------------------------ history
static inline void ev(int op, int64_t a, int64_t r) {
  Result &R = *S->res;
  int c = S->cur >= 0 ? S->F[S->cur].cls : FC_OTHER;
  R.hash = fnv(fnv(fnv(fnv(R.hash, (uint64_t)S->cur), (uint64_t)op), (uint64_t)a), (uint64_t)r);
  R.ihash = fnv(R.ihash, (uint64_t)(c * 64 + op));
  if (S->plan->trace && R.events.size() < 2000000)
    R.events.push_back({(uint32_t)R.steps, (uint16_t)S->cur, (uint8_t)c, (uint8_t)op, a, r});
}

// ids in order of first appearance: the history hash must not depend on link addresses
static inline int64_t oid(const void *p) {
  auto it = S->objid.find(p);
  if (it != S->objid.end()) return it->second;
  int id = (int)S->objid.size() + 1;
  S->objid[p] = id;
  return id;
}

// ------------------------------------------------------------------ context switching
// A minimal x86-64 context switch (callee-saved registers + stack pointer).  swapcontext() is
// avoided on purpose: it makes a sigprocmask system call per switch, and ASan's interceptor
// re-maps the shadow of the whole target stack on every call.  The sanitizers are told about
// the switch through their fiber APIs instead.
extern "C" void sim_switch(void **save_sp, void *load_sp);
extern "C" void sim_tramp(void);
asm(R"(
  .text
  .globl sim_switch
  .type sim_switch,@function
sim_switch:
  pushq %rbp
  pushq %rbx
  pushq %r12
  pushq %r13
  pushq %r14
  pushq %r15
  movq %rsp, (%rdi)
  movq %rsi, %rsp
  popq %r15
  popq %r14
  popq %r13
  popq %r12
  popq %rbx
  popq %rbp
  ret
  .size sim_switch,.-sim_switch
  .globl sim_tramp
  .type sim_tramp,@function
sim_tramp:
  movq %r12, %rdi
  call *%r13
  ud2
  .size sim_tramp,.-sim_tramp
)");

// Thread-local storage of the lbzip2 objects.  All fibers share one OS thread and therefore one TLS block; the part of it that
// belongs to lbzip2 (delimited by the marker objects sim/tls_a.c, sim/tls_z.c) is saved and restored at every switch, starts from
// the pristine image in every new thread and dies with it - like real TLS.  The unchanged lbzip2 has no TLS (empty ranges, no
// cost); a change that introduces `__thread` state must not be misrepresented (seeded change C13-3).
extern "C" { extern __thread char sim_tls_d_begin, sim_tls_d_end, sim_tls_b_begin, sim_tls_b_end; }
static char *g_tls_d, *g_tls_b;          // start of lbzip2's .tdata / .tbss part in this OS thread's TLS block
static size_t g_tls_dn, g_tls_bn;
static std::vector<char> g_tls_pristine, g_tls_root;
static void tls_init() {
  g_tls_d = &sim_tls_d_begin + 1; g_tls_dn = (size_t)(&sim_tls_d_end - g_tls_d);
  g_tls_b = &sim_tls_b_begin + 1; g_tls_bn = (size_t)(&sim_tls_b_end - g_tls_b);
  if ((ptrdiff_t)g_tls_dn < 0 || (ptrdiff_t)g_tls_bn < 0 || g_tls_dn > (1u << 20) || g_tls_bn > (1u << 24)) { fprintf(stderr, "lbzsim: unexpected TLS layout\n"); _exit(3); }
  g_tls_pristine.resize(g_tls_dn + g_tls_bn);
  if (g_tls_dn) rawcpy(g_tls_pristine.data(), g_tls_d, g_tls_dn);
  if (g_tls_bn) rawcpy(g_tls_pristine.data() + g_tls_dn, g_tls_b, g_tls_bn);
  g_tls_root = g_tls_pristine;
}
static inline void tls_save(std::vector<char> &v) { if (v.size() != g_tls_dn + g_tls_bn) v.resize(g_tls_dn + g_tls_bn); if (g_tls_dn) rawcpy(v.data(), g_tls_d, g_tls_dn); if (g_tls_bn) rawcpy(v.data() + g_tls_dn, g_tls_b, g_tls_bn); }
static inline void tls_load(const std::vector<char> &v) { if (g_tls_dn) rawcpy(g_tls_d, v.data(), g_tls_dn); if (g_tls_bn) rawcpy(g_tls_b, v.data() + g_tls_dn, g_tls_bn); }

__attribute__((unused)) static const void *g_root_bottom;
__attribute__((unused)) static size_t g_root_size;

static void switch_to(int from, int to, bool dying) {
  // from == -1: root context; to == -1: root context
  State &s = *S;
  void **fsp = from < 0 ? &s.root_sp : &s.F[from].sp;
  void *tsp = to < 0 ? s.root_sp : s.F[to].sp;
  shim_suspend();
  s.cur = to;
  if (g_tls_dn + g_tls_bn) { tls_save(from < 0 ? g_tls_root : s.F[from].tls); tls_load(to < 0 ? g_tls_root : s.F[to].tls); }
  { static int root_errno; int e = errno; if (from < 0) root_errno = e; else s.F[from].saved_errno = e; errno = to < 0 ? root_errno : s.F[to].saved_errno; }
#ifdef SIM_TSAN
  static int run_token;
  if (from >= 0) TS_REL(&run_token);
  __tsan_switch_to_fiber(to < 0 ? s.root_ts : s.F[to].ts, 1 /* no_sync */);
#endif
#ifdef SIM_ASAN
  void *fake = nullptr;
  const void *bottom = to < 0 ? g_root_bottom : (const void *)s.F[to].stack;
  size_t size = to < 0 ? g_root_size : (size_t)STK;
  __sanitizer_start_switch_fiber(dying ? nullptr : &fake, bottom, size);
#endif
  (void)dying;
  sim_switch(fsp, tsp);
#ifdef SIM_ASAN
  {
    const void *ob; size_t os;
    __sanitizer_finish_switch_fiber(fake, &ob, &os);
  }
#endif
#ifdef SIM_TSAN
  if (from < 0) TS_ACQ(&run_token);
#endif
  shim_resume();
}

[[noreturn]] static void end_run(int kind, int code) {
  State &s = *S;
  if (!s.over) { s.over = true; s.res->kind = kind; s.res->code = code; }
  int me = s.cur;
  switch_to(me, -1, true);
  abort();   // not reached (real abort)
}

// ------------------------------------------------------------------ choices
static bool dev_lookup(uint32_t idx, uint32_t *v) {
  const auto &d = S->plan->sched.devs;
  while (S->devpos < d.size() && d[S->devpos].first < idx) S->devpos++;
  if (S->devpos < d.size() && d[S->devpos].first == idx) { *v = d[S->devpos].second; S->devpos++; return true; }
  return false;
}
static inline void rec_choice(uint32_t idx, uint32_t v, uint32_t dflt) {
  if (v != dflt) S->res->devs.push_back({idx, v});
}

static bool is_enabled(int i) {
  State &s = *S;
  Fiber &f = s.F[i];
  switch (f.state) {
  case ST_RUN: return true;
  case ST_MUTEX: { auto it = s.mtx.find(f.obj); return it == s.mtx.end() || it->second.owner == -1; }
  case ST_FLOCK: return s.flock_owner == -1;
  case ST_JOIN: return ((const Fiber *)f.obj)->state == ST_DONE;
  case ST_SIGWAIT: return ((s.ppend | f.tpend) & ~f.wait_mask) != 0;
  default: return false;
  }
}

static bool starved(const Fiber &f, uint32_t mask) {
  if (mask & (1u << f.cls)) return true;
  if ((mask & 64) && (f.cls == FC_WORKER || f.cls == FC_PRIMARY) && (f.widx & 1)) return true;
  if ((mask & 128) && f.cls == FC_WORKER) return f.widx != 1;
  return false;
}

static int pick_policy(int pol, uint32_t param, const int *en, int n, int dflt_cur_enabled) {
  State &s = *S;
  switch (pol) {
  case P_RANDOM: return en[s.rng.below(n)];
  case P_STICKY:
    if (dflt_cur_enabled >= 0 && s.rng.below(param ? param : 8) != 0) return dflt_cur_enabled;
    return en[s.rng.below(n)];
  case P_PCT: {
    int best = en[0];
    for (int i = 1; i < n; i++) if (s.F[en[i]].prio > s.F[best].prio) best = en[i];
    return best;
  }
  case P_STARVE: {
    int c[MAXF], m = 0;
    if (s.rng.below(256) != 0)
      for (int i = 0; i < n; i++) if (!starved(s.F[en[i]], param)) c[m++] = en[i];
    if (!m) { for (int i = 0; i < n; i++) c[i] = en[i]; m = n; }
    if (dflt_cur_enabled >= 0 && s.rng.below(8) != 0)
      for (int i = 0; i < m; i++) if (c[i] == dflt_cur_enabled) return dflt_cur_enabled;
    return c[s.rng.below(m)];
  }
  default: return dflt_cur_enabled >= 0 ? dflt_cur_enabled : en[0];
  }
}

const uint32_t starve_masks[] = {1u << FC_SINK, 1u << FC_SINK, 1u << FC_SOURCE, 1u << FC_MAIN, 1u << FC_PRIMARY, 1u << FC_WORKER,
                                 (1u << FC_SINK) | (1u << FC_SOURCE), 64, 128, (1u << FC_SINK) | (1u << FC_WORKER),
                                 (1u << FC_SOURCE) | (1u << FC_PRIMARY), (1u << FC_SINK) | 128};
const unsigned n_starve_masks = sizeof starve_masks / sizeof *starve_masks;

static void spurious_wake(int target) {
  State &s = *S;
  Fiber &f = s.F[target];
  f.state = ST_MUTEX; f.obj = f.cond_mutex;
  s.res->spurious_fired++;
}

static void check_monitors();
static void inject_signals();
static int deliver_pending();

// The one place where "who runs next" is decided.  Called on the current
// fiber's stack (or from root with cur == -1 at start).  Returns only when the
// calling fiber has been chosen again.
static void schedule_point(int op, int64_t a) {
  State &s = *S;
  Result &R = *s.res;
  int me = s.cur;
  R.steps++;
  R.sim_ns += 1000;
  if (s.plan->monitors) check_monitors();
  inject_signals();
  if (s.fault_seen && me >= 0 && s.F[me].cls == FC_MAIN) R.main_steps_after_fault++;
  // step budget: the static part comes from the plan (input shape), the dynamic part grows with
  // the I/O calls actually made, so that fragmentation cannot fake a livelock while a spinning
  // scheduler (steps without I/O) still exhausts it
  static const uint64_t budget_mult = getenv("LBZSIM_BUDGET_MULT") ? strtoull(getenv("LBZSIM_BUDGET_MULT"), 0, 10) : 1;     // diagnosis only: does a STEP_BUDGET run end with more steps?
  // (emit tasks earn a little budget too, up to a cap: a speculative block that is decoded and thrown away can legitimately expand to
  // megabytes that never reach write(), which with 69-byte output buffers took 290 000 steps on the unchanged tree - a false STEP_BUDGET
  // alarm of C10's thorough tier; a real emit/reorder livelock still runs out after the cap)
  uint64_t budget = ((s.plan->step_budget ? s.plan->step_budget : 5000000) + 100ull * s.io_progress + 4ull * s.emit_credit) * (budget_mult ? budget_mult : 1);
  if (op == OP_PREEMPT) { s.preempt_steps++; R.inregion_points++; }     // preemption points inside unsynchronised code are not scheduler progress
  if (R.steps - s.preempt_steps > budget) end_run(X_BUDGET, 0);

  const Sched &sc = s.plan->sched;
  // spurious wake-up coin (a recorded choice, only when configured)
  if (sc.spurious && op != OP_PREEMPT) {    // (not at preemption points: their number is unrelated to scheduler progress)
    uint32_t idx = s.nchoice++, v = 0;
    if (sc.explicit_) {
      if (dev_lookup(idx, &v)) { if (!(v >= 1 && (int)v <= s.nf && s.F[v - 1].state == ST_COND)) v = 0; }
    } else if (s.rng.below(sc.spurious) == 0) {
      int w[MAXF], n = 0;
      for (int i = 0; i < s.nf; i++) if (s.F[i].state == ST_COND) w[n++] = i;
      if (n) v = w[s.rng.below(n)] + 1;
    }
    if (v) spurious_wake(v - 1);
    rec_choice(idx, v, 0);
  }

  int en[MAXF], n = 0;
  unsigned livef = 0;
  for (int i = 0; i < s.nf; i++) {
    if (s.F[i].state != ST_DONE && s.F[i].state != ST_FREE) livef++;
    if (is_enabled(i)) en[n++] = i;
  }
  if (livef > R.max_live_fibers) R.max_live_fibers = livef;
  if (!n) {
    std::string &info = R.deadlock_info;
    for (int i = 0; i < s.nf; i++) {
      Fiber &f = s.F[i];
      if (f.state == ST_DONE) continue;
      static const char *sn[] = {"free", "run", "mutex", "cond", "join", "sigwait", "flock", "done"};
      char b[160];
      const char *on = (f.state == ST_MUTEX || f.state == ST_COND) ? sym_of(f.obj) : nullptr;
      snprintf(b, sizeof b, "[f%d %s%d %s %s] ", i, class_name(f.cls), f.widx, sn[f.state], on ? on : "");
      info += b;
    }
    char b[160];
    snprintf(b, sizeof b, "work_units=%u/%u in_slots=%u/%u out_slots=%u/%u", work_units, num_worker, in_slots, total_in_slots, out_slots, total_out_slots);
    info += b;
    end_run(X_DEADLOCK, 0);
  }
  bool cur_en = me >= 0 && is_enabled(me);
  int dflt = cur_en ? me : en[0];
  uint32_t idx = s.nchoice++;
  int pick = dflt;
  if (sc.explicit_) {
    uint32_t v;
    if (dev_lookup(idx, &v) && (int)v < s.nf && is_enabled((int)v)) pick = (int)v;
  } else {
    int pol = sc.policy;
    uint32_t param = sc.param;
    if (pol == P_PHASES) {
      if (R.steps >= s.phase_until) {
        static const int subs[] = {P_RANDOM, P_STICKY, P_STICKY, P_STARVE, P_STARVE, P_DEFAULT};
        s.subpolicy = subs[s.rng.below(6)];
        s.subparam = s.subpolicy == P_STARVE ? starve_masks[s.rng.below(sizeof starve_masks / sizeof *starve_masks)]
                                             : (uint32_t)(2u << s.rng.below(6));
        s.phase_until = R.steps + 10 + s.rng.below(20u << s.rng.below(6));
      }
      pol = s.subpolicy; param = s.subparam;
    }
    if (pol == P_PCT) {
      for (uint64_t p : s.pct_points) if (p == R.steps && me >= 0) s.F[me].prio = s.pct_low--;
    }
    // stall fault: stalled threads are left out while anything else can run
    int en2[MAXF], n2 = 0;
    for (int i = 0; i < n; i++) if (s.F[en[i]].stalled_until <= R.steps) en2[n2++] = en[i];
    if (n2 && n2 < n) pick = pick_policy(pol, param, en2, n2, cur_en && s.F[me].stalled_until <= R.steps ? me : -1);
    else pick = pick_policy(pol, param, en, n, cur_en ? me : -1);
  }
  rec_choice(idx, (uint32_t)pick, (uint32_t)dflt);
  if (cur_en && pick != me) { R.preemptions++; if (op == OP_PREEMPT) R.inregion_preemptions++; }
  (void)op; (void)a;
  if (pick != me) {
    switch_to(me, pick, me >= 0 && s.F[me].state == ST_DONE);
    // resumed later
  }
  // we are the chosen fiber now
  Fiber &f = s.F[s.cur];
  if (f.state != ST_RUN) f.state = ST_RUN;
  deliver_pending();   // asynchronous signals act when the thread next runs
}

// "preempt" variant: lbzip2's objects are compiled with -fsanitize=thread only to get a call at every memory
// access; the hooks (sim/preempt.cc) land here.  Every so many accesses (a recorded choice) the running thread
// offers a decision point *inside* unsynchronised code, so interleavings within such regions are explored too.
static void draw_preempt_countdown() {
  State &s = *S;
  const Sched &sc = s.plan->sched;
  uint32_t idx = s.nchoice++, v = 0;
  if (sc.explicit_) { uint32_t x; if (dev_lookup(idx, &x)) v = x; }
  else if (sc.preempt) v = 1 + (uint32_t)s.rng.below(2ull * sc.preempt);
  rec_choice(idx, v, 0);
  s.preempt_countdown = v ? (int64_t)v : (int64_t)1 << 62;
}
void preempt_access() {
  State *s = S;
  if (!s || s->cur < 0 || s->over) return;
  if (--s->preempt_countdown > 0) return;
  Fiber &f = s->F[s->cur];
  if (f.shim_depth > 0 || f.state != ST_RUN) { s->preempt_countdown = 1; return; }    // not inside simulator code / signal handlers
  if (!s->plan->sched.preempt && !s->plan->sched.explicit_) { s->preempt_countdown = (int64_t)1 << 62; return; }
  draw_preempt_countdown();
  if (s->nf < 2) return;
  f.shim_depth++;
  schedule_point(OP_PREEMPT, 0);
  f.shim_depth--;
}

// block until enabled (state must already be set), then continue
static inline void block_on(int st, const void *obj, int op, int64_t a) {
  Fiber &f = S->F[S->cur];
  f.state = st; f.obj = obj;
  schedule_point(op, a);
}
static inline void point(int op, int64_t a) { schedule_point(op, a); }

// ------------------------------------------------------------------ signals
static bool default_ignored(int s) { return s == SIGCHLD || s == SIGURG || s == SIGWINCH || s == SIGCONT; }

// Deliver pending unblocked signals to the current fiber; returns number of handlers run.
static int deliver_pending() {
  State &s = *S;
  Fiber &f = s.F[s.cur];
  uint64_t d = (s.ppend | f.tpend) & ~f.mask;
  if (!d) return 0;
  int order[64], n = 0;
  for (int sig = 1; sig < 64; sig++) {
    if (!(d & BIT(sig))) continue;
    if (f.tpend & BIT(sig)) f.tpend &= ~BIT(sig); else s.ppend &= ~BIT(sig);
    if (s.disp[sig] == 1) continue;
    if (s.disp[sig] == 0) {
      if (default_ignored(sig)) continue;
      ev(OP_SIGRUN, sig, -1);
      end_run(X_SIGNAL, sig);
    }
    order[n++] = sig;
  }
  for (int i = n - 1; i >= 0; i--) {
    int sig = order[i];
    uint64_t om = f.mask;
    f.mask |= BIT(sig);
    ev(OP_SIGRUN, sig, 0);
    shim_suspend();
    TS_ACQ(&s.handler[sig]);
    s.handler[sig](sig);
    shim_resume();
    f.mask = om;
  }
  return n;
}

static void inject_signals() {
  State &s = *S;
  for (auto &e : s.res->sigs) {
    if (e.fired || e.step != s.res->steps) continue;
    e.fired = true;
    if (e.sig == SIGKILL) end_run(X_KILLED, SIGKILL);
    s.ppend |= BIT(e.sig);
  }
}

static uint64_t set2m(const sigset_t *set) { uint64_t m = 0; for (int i = 1; i < 64; i++) if (sigismember(set, i) == 1) m |= BIT(i); return m; }
static void m2set(uint64_t m, sigset_t *set) { sigemptyset(set); for (int i = 1; i < 64; i++) if (m & BIT(i)) sigaddset(set, i); }

// ------------------------------------------------------------------ fibers
static void fiber_entry(int id);

static int classify(void *(*fn)(void *), void *arg) {
  (void)fn;
  char *a = (char *)arg;
  if (!(a >= __start_lbz_data && a + sizeof(void *) <= __stop_lbz_data) && !(a >= __start_lbz_bss && a + sizeof(void *) <= __stop_lbz_bss))
    return FC_OTHER;
  void *entry; memcpy(&entry, a, sizeof entry);
  const char *n = sym_of(entry);
  if (!n) return FC_OTHER;
  if (!strncmp(n, "primary_thread", 14)) return FC_PRIMARY;
  if (!strncmp(n, "worker_thread_proc", 18)) return FC_WORKER;
  if (!strncmp(n, "source_thread_proc", 18)) return FC_SOURCE;
  if (!strncmp(n, "sink_thread_proc", 16)) return FC_SINK;
  return FC_OTHER;
}

static int new_fiber(void *(*fn)(void *), void *arg, uint64_t mask, int cls) {
  State &s = *S;
  if (s.nf >= MAXF) { s.res->monitor = "too many threads for the simulator"; end_run(X_BUDGET, 0); }
  int id = s.nf++;
  Fiber &f = s.F[id];
  if ((size_t)id >= g_stacks.size()) {
    char *st = (char *)mmap(0, STK + 65536, PROT_READ | PROT_WRITE, MAP_PRIVATE | MAP_ANONYMOUS | MAP_NORESERVE, -1, 0);
    if (st == MAP_FAILED) { perror("mmap stack"); _exit(3); }
    mprotect(st, 65536, PROT_NONE);     // guard: a stack overflow in a simulated thread faults instead of running into another mapping
    st += 65536;
    g_stacks.push_back(st);
    (void)VALGRIND_STACK_REGISTER(st, st + STK);
  }
  f.stack = g_stacks[id];
  f.tls = g_tls_pristine;
  if (RUNNING_ON_VALGRIND) (void)VALGRIND_MAKE_MEM_UNDEFINED(f.stack, STK);     // a recycled stack still holds the previous run's values
#ifdef SIM_ASAN
  __asan_unpoison_memory_region(f.stack, STK);
#endif
  {
    // initial frame: six callee-saved registers (r15 r14 r13 r12 rbx rbp) and the return address
    uintptr_t top = ((uintptr_t)f.stack + STK) & ~(uintptr_t)15;
    uintptr_t *sp = (uintptr_t *)(top - 72);      // 7 words popped -> rsp = top - 16 at sim_tramp: 16-byte aligned before its call
    sp[0] = 0;                                    // r15
    sp[1] = 0;                                    // r14
    sp[2] = (uintptr_t)(void (*)(int))fiber_entry;   // r13
    sp[3] = (uintptr_t)id;                        // r12
    sp[4] = 0;                                    // rbx
    sp[5] = 0;                                    // rbp
    sp[6] = (uintptr_t)sim_tramp;                 // return address
    sp[7] = 0; sp[8] = 0;
    f.sp = sp;
  }
  f.state = ST_RUN; f.obj = nullptr; f.cond_mutex = nullptr;
  f.fn = fn; f.arg = arg; f.mask = mask; f.tpend = 0; f.wait_mask = 0;
  f.cls = cls;
  f.widx = 0;
  if (cls == FC_PRIMARY) s.nworkers_created = 1;
  if (cls == FC_WORKER) f.widx = s.nworkers_created++;
  f.prio = s.rng.next() | (1ull << 63);
#ifdef SIM_TSAN
  f.ts = __tsan_create_fiber(0);
#endif
  return id;
}

// ------------------------------------------------------------------ heap
#ifdef SIM_ASAN
#define CANARY 0
#else
#define CANARY 8
#endif
static const unsigned char canary_bytes[8] = {0xC5, 0x3A, 0x96, 0x69, 0x5C, 0xA3, 0x0F, 0xF0};

static void heap_check_block(void *p, size_t n) {
#if CANARY
  if (memcmp((char *)p + n, canary_bytes, CANARY) != 0 && S->res->monitor.empty()) {
    char b[128]; snprintf(b, sizeof b, "heap: write past the end of a %zu-byte block", n);
    S->res->monitor = b;
  }
#else
  (void)p; (void)n;
#endif
}

}  // namespace sim

using namespace sim;

// =================================================================== shims
extern "C" {

// ---- hooks provided to lbzip2 (verif.h)
void verif_limits(int mode, size_t *in_g, size_t *out_g) { SHIM;
  const Plan &p = *S->plan;
  if (mode == 1) {
    if (p.in_granul) *in_g = p.in_granul;
    if (p.out_granul && out_g) *out_g = p.out_granul;
  } else if (mode == 2) {
    if (p.copy_granul) *in_g = p.copy_granul;
  }
  S->res->in_granul_used = (unsigned)*in_g;
  if (out_g) S->res->out_granul_used = (unsigned)*out_g;
}
void verif_task(const char *name, int begin) { SHIM;
  if (begin) {
    S->res->reach[std::string("task.") + name]++;
    ev(OP_TASK, (int64_t)hash_bytes(name, strlen(name)), 0);
    if (S->emit_credit < 2000000 && !strcmp(name, "emit")) S->emit_credit++;
    const Sched &sc = S->plan->sched;
    if (sc.stall_k && !sc.explicit_ && S->cur >= 0 && sc.stall_task == name && S->res->reach[std::string("task.") + name] == sc.stall_k) {
      S->F[S->cur].stalled_until = S->res->steps + sc.stall_len;
      S->res->stalls_fired++;
    }
    if (S->plan->trace && S->res->tasks.size() < 1000000) S->res->tasks.push_back({(uint32_t)S->res->steps, (uint16_t)S->cur, name});
  }
  if (S->plan->monitors) check_monitors();
}
void verif_reach(const char *site) { SHIM; S->res->reach[site]++; }

// ---- threads
int simw_pthread_create(pthread_t *t, const pthread_attr_t *a, void *(*fn)(void *), void *arg) { SHIM;
  (void)a;
  int cls = classify(fn, arg);
  int id = new_fiber(fn, arg, S->F[S->cur].mask, cls);
  TS_REL(&S->F[id]);
  *t = (pthread_t)(id + 1);
  ev(OP_CREATE, id, cls);
  return 0;
}
pthread_t simw_pthread_self(void) { SHIM; return (pthread_t)(S->cur + 1); }
void simw_pthread_exit(void *r) { SHIM;
  (void)r;
  ev(OP_TEXIT, 0, 0);
  Fiber &f = S->F[S->cur];
  TS_REL(&f.fn);
  f.state = ST_DONE;
  f.tpend = 0;
  f.obj = nullptr;
  schedule_point(OP_TEXIT, 0);   // picks someone else; never returns
  abort();
}
int simw_pthread_join(pthread_t t, void **r) { SHIM;
  (void)r;
  int id = (int)t - 1;
  block_on(ST_JOIN, &S->F[id], OP_JOIN, id);
  S->F[id].reaped = true;
  TS_ACQ(&S->F[id].fn);
  ev(OP_JOIN, id, 0);
  return 0;
}
int simw_pthread_mutex_lock(pthread_mutex_t *m) { SHIM;
  block_on(ST_MUTEX, m, OP_LOCK, 0);
  Mutex &M = S->mtx[m];
  M.owner = S->cur;
  TS_ACQ(m);
  ev(OP_LOCK, oid(m), 0);
  return 0;
}
int simw_pthread_mutex_unlock(pthread_mutex_t *m) { SHIM;
  Mutex &M = S->mtx[m];
  if (M.owner != S->cur) {
    if (S->res->monitor.empty()) S->res->monitor = "mutex unlocked by a thread that does not own it";
    end_run(X_SIGNAL, SIGABRT);
  }
  TS_REL(m);
  M.owner = -1;
#ifdef SIM_PREEMPT
  // the statements right after an unlock are where "publish, then finish initialising" slips live (seeded change C01-4): one unlock
  // in four is followed by a preemption point within the next 1-6 instrumented memory accesses (a recorded choice like all others)
  {
    State &s = *S; const Sched &sc = s.plan->sched;
    if (sc.preempt || sc.explicit_) {
      uint32_t idx = s.nchoice++, v = 0;
      if (sc.explicit_) { uint32_t x; if (dev_lookup(idx, &x)) v = x; }
      else if (s.rng.below(4) == 0) v = 1 + (uint32_t)s.rng.below(6);
      rec_choice(idx, v, 0);
      if (v) s.preempt_countdown = v;
    }
  }
#endif
  return 0;
}
int simw_pthread_cond_wait(pthread_cond_t *c, pthread_mutex_t *m) { SHIM;
  Mutex &M = S->mtx[m];
  if (M.owner != S->cur) {
    if (S->res->monitor.empty()) S->res->monitor = "cond_wait without holding the mutex";
    end_run(X_SIGNAL, SIGABRT);
  }
  TS_REL(m);
  M.owner = -1;
  ev(OP_WAIT, oid(c), 0);
  S->F[S->cur].cond_mutex = m;
  block_on(ST_COND, c, OP_WAIT, 0);     // becomes ST_MUTEX when signalled, ST_RUN when it has the mutex
  S->mtx[m].owner = S->cur;
  TS_ACQ(m);
  return 0;
}
static void wake_one(int k) { Fiber &f = S->F[k]; f.state = ST_MUTEX; f.obj = f.cond_mutex; }
int simw_pthread_cond_signal(pthread_cond_t *c) { SHIM;
  State &s = *S;
  int w[MAXF], n = 0;
  for (int k = 0; k < s.nf; k++) if (s.F[k].state == ST_COND && s.F[k].obj == c) w[n++] = k;
  int woke = -1;
  if (n == 1) woke = w[0];
  else if (n > 1) {
    uint32_t idx = s.nchoice++, v = (uint32_t)w[0];
    if (s.plan->sched.explicit_) {
      uint32_t x;
      if (dev_lookup(idx, &x)) for (int i = 0; i < n; i++) if ((uint32_t)w[i] == x) v = x;
    } else if (s.plan->sched.policy != P_DEFAULT) v = (uint32_t)w[s.rng.below(n)];
    rec_choice(idx, v, (uint32_t)w[0]);
    woke = (int)v;
  }
  if (woke >= 0) wake_one(woke);
  ev(OP_SIGNAL, oid(c), woke);
  return 0;
}
int simw_pthread_cond_broadcast(pthread_cond_t *c) { SHIM;
  State &s = *S;
  int n = 0;
  for (int k = 0; k < s.nf; k++) if (s.F[k].state == ST_COND && s.F[k].obj == c) { wake_one(k); n++; }
  ev(OP_BCAST, oid(c), n);
  return 0;
}
void simw_flockfile(FILE *f) { SHIM;
  State &s = *S;
  if (s.flock_owner == s.cur) { s.flock_depth++; return; }
  block_on(ST_FLOCK, f, OP_FLOCK, 0);
  s.flock_owner = s.cur; s.flock_depth = 1;
  TS_ACQ(&s.flock_owner);
  ev(OP_FLOCK, 0, 0);
}
void simw_funlockfile(FILE *f) { SHIM;
  (void)f;
  State &s = *S;
  if (s.flock_owner != s.cur) return;
  if (--s.flock_depth == 0) { TS_REL(&s.flock_owner); s.flock_owner = -1; }
}

// ---- signals
int simw_kill(pid_t p, int sig) { SHIM;
  (void)p;
  if (sig == 0) return 0;
  if (sig < 1 || sig > 63) { errno = EINVAL; return -1; }
  TS_REL(&S->handler[sig]);
  S->ppend |= BIT(sig);
  ev(OP_KILL, sig, 0);
  deliver_pending();
  return 0;
}
int simw_sigaction(int sig, const struct sigaction *a, struct sigaction *o) { SHIM;
  if (sig < 1 || sig > 63 || sig == SIGKILL || sig == SIGSTOP) { errno = EINVAL; return -1; }
  State &s = *S;
  if (o) {
    memset(o, 0, sizeof *o);
    o->sa_handler = s.disp[sig] == 0 ? SIG_DFL : s.disp[sig] == 1 ? SIG_IGN : s.handler[sig];
  }
  if (a) {
    if (a->sa_handler == SIG_DFL) s.disp[sig] = 0;
    else if (a->sa_handler == SIG_IGN) { s.disp[sig] = 1; s.ppend &= ~BIT(sig); for (int i = 0; i < s.nf; i++) s.F[i].tpend &= ~BIT(sig); }
    else { s.disp[sig] = 2; s.handler[sig] = a->sa_handler; }
  }
  return 0;
}
static int domask(int how, const sigset_t *set, sigset_t *old) {
  Fiber &f = S->F[S->cur];
  if (old) m2set(f.mask, old);
  if (set) {
    uint64_t m = set2m(set) & ~(BIT(SIGKILL) | BIT(SIGSTOP));
    if (how == SIG_BLOCK) f.mask |= m;
    else if (how == SIG_UNBLOCK) f.mask &= ~m;
    else if (how == SIG_SETMASK) f.mask = m;
    else return EINVAL;
    deliver_pending();
  }
  return 0;
}
int simw_pthread_sigmask(int how, const sigset_t *set, sigset_t *old) { SHIM; return domask(how, set, old); }
int simw_sigprocmask(int how, const sigset_t *set, sigset_t *old) { SHIM; int r = domask(how, set, old); if (r) { errno = r; return -1; } return 0; }
int simw_sigpending(sigset_t *set) { SHIM; Fiber &f = S->F[S->cur]; m2set((S->ppend | f.tpend) & f.mask, set); return 0; }
int simw_sigsuspend(const sigset_t *m) { SHIM;
  Fiber &f = S->F[S->cur];
  uint64_t old = f.mask;
  uint64_t mm = set2m(m) & ~(BIT(SIGKILL) | BIT(SIGSTOP));
  for (;;) {
    f.wait_mask = mm;
    block_on(ST_SIGWAIT, nullptr, OP_SIGSUSP, 0);
    f.mask = mm;
    int n = deliver_pending();
    f.mask = old;
    if (n > 0) break;
  }
  ev(OP_SIGSUSP, 0, 0);
  errno = EINTR;
  return -1;
}
pid_t simw_getpid(void) { SHIM; return 4242; }

// ---- process
void simw__exit(int c) { SHIM;
  point(OP_PEXIT, c);
  ev(OP_PEXIT, c, 0);
  end_run(X_EXIT, c);
}
void simw_abort(void) { SHIM;
  S->res->aborted = true;
  if (S->res->abort_msg.empty()) S->res->abort_msg = "abort()";
  end_run(X_SIGNAL, SIGABRT);
}
void simw___assert_fail(const char *e, const char *f, unsigned l, const char *fn) { SHIM;
  char b[512];
  const char *base = strrchr(f, '/');
  snprintf(b, sizeof b, "assertion failed: %s (%s:%u %s)", e, base ? base + 1 : f, l, fn);
  S->res->aborted = true;
  S->res->abort_msg = b;
  end_run(X_SIGNAL, SIGABRT);
}
char *simw_getenv(const char *n) { SHIM;
  auto it = S->plan->env.find(n);
  if (it == S->plan->env.end()) return nullptr;
  char *c = strdup(it->second.c_str());
  S->envbuf.push_back(c);
  return c;
}
long simw_sysconf(int n) { SHIM;
  if (n == _SC_NPROCESSORS_ONLN) return S->plan->ncpu;
  if (n == _SC_THREAD_THREADS_MAX) return -1;
  return sysconf(n);
}
int simw_clock_gettime(clockid_t c, struct timespec *t) { SHIM;
  (void)c;
  uint64_t ns = S->res->sim_ns;
  t->tv_sec = 1600000000 + ns / 1000000000ull;
  t->tv_nsec = ns % 1000000000ull;
  return 0;
}

// ---- heap
#ifdef SIM_ASAN
// ASan's allocator mmaps and munmaps every block above 256 KiB; lbzip2 allocates 0.9-4.8 MB
// blocks all the time, which made sanitized runs spend most of their time in page faults.
// Large blocks therefore come from a per-process pool: [user bytes][8 canary bytes][poisoned
// slack]; a freed block is poisoned entirely, so overflow and use-after-free stay visible
// (overflows of 1-8 bytes through the canary, checked at free and at the end of the run).
#define POOL_MIN (128u << 10)
#define POOL_GRAIN (64u << 10)
static std::map<size_t, std::vector<char *>> g_pool;
static std::unordered_map<void *, size_t> g_pool_cap;   // live pooled block -> capacity
static size_t g_pool_bytes;
static char *pool_get(size_t n, uint8_t junk) {
  size_t cap = (n + 8 + POOL_GRAIN - 1) / POOL_GRAIN * POOL_GRAIN;
  auto &v = g_pool[cap];
  char *p;
  if (v.empty()) { p = (char *)malloc(cap); if (!p) return nullptr; }
  else { p = v.back(); v.pop_back(); g_pool_bytes -= cap; }
  __asan_unpoison_memory_region(p, n + 8);
  memset(p, junk, n);
  memcpy(p + n, canary_bytes, 8);
  __asan_poison_memory_region(p + n + 8, cap - n - 8);
  g_pool_cap[p] = cap;
  return p;
}
static bool pool_put(void *p, size_t n) {
  auto it = g_pool_cap.find(p);
  if (it == g_pool_cap.end()) return false;
  size_t cap = it->second;
  g_pool_cap.erase(it);
  if (memcmp((char *)p + n, canary_bytes, 8) != 0 && S && S->res->monitor.empty()) {
    char b[128]; snprintf(b, sizeof b, "heap: write past the end of a %zu-byte block", n);
    S->res->monitor = b;
  }
  if (g_pool_bytes + cap > (768u << 20)) { __asan_unpoison_memory_region(p, cap); free(p); return true; }
  __asan_poison_memory_region(p, cap);
  g_pool[cap].push_back((char *)p);
  g_pool_bytes += cap;
  return true;
}
#endif

// Private arena for the simulated program's heap (plain / ndebug / preempt variants; the sanitizer and valgrind variants keep the
// real malloc, which those tools instrument).  Reasons: (1) isolation - a wild free() or a write after free() in a broken lbzip2
// can then only damage lbzip2's own blocks, not the harness's heap (seeded change C07-3 took worker processes down with "corrupted
// double-linked list", unreproducibly); (2) determinism - first-fit over an arena that is empty at the start of every run hands
// out the same offsets whatever the process did before, so even the consequences of such undefined behaviour replay exactly.
// All bookkeeping (live blocks, free extents) lives outside the arena.
#if !defined(SIM_ASAN) && !defined(SIM_TSAN)
#define SIM_ARENA 1
static char *g_arena;
static const size_t ARENA_SIZE = (size_t)12 << 30;     // virtual; pages are touched on demand
static size_t g_arena_high;                             // high-water mark of the current process
static inline bool in_arena(const void *p) { return g_arena && (const char *)p >= g_arena && (const char *)p < g_arena + ARENA_SIZE; }
static bool arena_on() {
  static int on = -1;
  if (on < 0) {
    on = RUNNING_ON_VALGRIND ? 0 : 1;
    if (on) { g_arena = (char *)mmap(0, ARENA_SIZE, PROT_READ | PROT_WRITE, MAP_PRIVATE | MAP_ANONYMOUS | MAP_NORESERVE, -1, 0); if (g_arena == MAP_FAILED) { g_arena = nullptr; on = 0; } }
  }
  return on == 1;
}
static void poison_verify(State &s, size_t off, size_t len);
static char *arena_alloc(State &s, size_t n) {
  size_t need = (n + CANARY + 63) & ~(size_t)63;
  if (s.arena_free.empty() && !s.arena_used) s.arena_free[0] = ARENA_SIZE;
  for (auto it = s.arena_free.begin(); it != s.arena_free.end(); ++it) {
    if (it->second < need) continue;
    size_t off = it->first, len = it->second;
    s.arena_free.erase(it);
    if (len > need) s.arena_free[off + need] = len - need;
    s.arena_used = true;
    if (off + need > g_arena_high) g_arena_high = off + need;
    for (auto pi = s.poisoned.lower_bound(off); pi != s.poisoned.end() && pi->first < off + need; pi = s.poisoned.erase(pi)) poison_verify(s, pi->first, pi->second);
    return g_arena + off;
  }
  return nullptr;
}
static void poison_verify(State &s, size_t off, size_t len) {
  const unsigned char *q = (const unsigned char *)g_arena + off;
  for (size_t i = 0; i < len; i++) if (q[i] != 0xDD) {
    if (s.res->monitor.empty()) { char b[160]; snprintf(b, sizeof b, "heap: write to freed memory (byte %zu of a freed block of at least %zu bytes)", i, len); s.res->monitor = b; }
    return;
  }
}
static void arena_release(State &s, void *p, size_t n) {
  size_t off = (size_t)((char *)p - g_arena), len = (n + CANARY + 63) & ~(size_t)63;
  // freed memory is poisoned (first 64 KiB): a read after free() sees 0xDD garbage, deterministically, and a write after free() is
  // found when the range is handed out again or at the end of the run
  { size_t pl = len < 65536 ? len : 65536; memset(p, 0xDD, pl); s.poisoned[off] = pl; }
  auto nx = s.arena_free.lower_bound(off);
  if (nx != s.arena_free.end() && nx->first == off + len) { len += nx->second; nx = s.arena_free.erase(nx); }
  if (nx != s.arena_free.begin()) { auto pv = std::prev(nx); if (pv->first + pv->second == off) { pv->second += len; return; } }
  s.arena_free[off] = len;
}
static void arena_end_of_run() {     // keep the resident set bounded: give back what lies above 384 MiB
  const size_t keep = (size_t)384 << 20;
  if (g_arena && g_arena_high > keep) { madvise(g_arena + keep, g_arena_high - keep, MADV_DONTNEED); g_arena_high = keep; }
}
#endif

static Fault *match_fault(int call, int role);
void *simw_malloc(size_t n) { SHIM;
  State &s = *S;
  if (n >= 65536) if (Fault *f = match_fault(C_MALLOC, R_ANY)) { errno = f->err ? f->err : ENOMEM; return nullptr; }      // injected allocation failure (large blocks only)
#ifdef SIM_ASAN
  if (n >= POOL_MIN) {
    char *pp = pool_get(n, s.plan->junk);
    if (!pp) return nullptr;
    s.live[pp] = n;
    s.freed.erase(pp);
    s.live_bytes += n;
    if (s.live_bytes > s.res->peak_heap) s.res->peak_heap = s.live_bytes;
    return pp;
  }
#endif
#ifdef SIM_ARENA
  char *p = arena_on() ? arena_alloc(s, n) : (char *)malloc(n + CANARY);
#else
  char *p = (char *)malloc(n + CANARY);
#endif
  if (!p) return nullptr;
  memset(p, s.plan->junk, n);
  (void)VALGRIND_MAKE_MEM_UNDEFINED(p, n);     // junk for the native variants, "undefined" for memcheck
#if CANARY
  memcpy(p + n, canary_bytes, CANARY);
#endif
  s.live[p] = n;
  s.freed.erase(p);
  s.live_bytes += n;
  if (s.live_bytes > s.res->peak_heap) s.res->peak_heap = s.live_bytes;
  return p;
}
void simw_free(void *p) { SHIM;
  if (!p) return;
  State &s = *S;
  auto it = s.live.find(p);
  if (it == s.live.end()) {
#ifdef SIM_ARENA
    if (in_arena(p)) {          // inside lbzip2's arena but not a live block: double free or wild pointer
      if (s.res->monitor.empty()) s.res->monitor = s.freed.count(p) ? "heap: double free" : "heap: free() of a pointer that is not the start of a live block";
      s.res->aborted = true;
      if (s.res->abort_msg.empty()) s.res->abort_msg = "free(): invalid pointer / double free detected by the tracking allocator";
      end_run(X_SIGNAL, SIGABRT);
    }
#endif
#ifndef SIM_ASAN     // (the ASan builds pass it on: ASan reports the double free with both stacks)
    if (s.freed.count(p)) {     // glibc would abort ("double free or corruption") or corrupt its heap silently; here it is always reported
      if (s.res->monitor.empty()) s.res->monitor = "heap: double free";
      s.res->aborted = true;
      if (s.res->abort_msg.empty()) s.res->abort_msg = "free(): double free detected by the tracking allocator";
      end_run(X_SIGNAL, SIGABRT);
    }
#endif
    free(p); return;   // not ours (e.g. strdup from libc)
  }
  heap_check_block(p, it->second);
  s.freed.insert(p);
  s.live_bytes -= it->second;
  size_t blk_n = it->second;
  s.live.erase(it);
#ifdef SIM_ASAN
  if (pool_put(p, blk_n)) return;
#endif
  (void)blk_n;
#ifdef SIM_ARENA
  if (in_arena(p)) { arena_release(s, p, blk_n); return; }
#endif
  shim_suspend();
  free(p);      // TSan: the release of the block is an access of the freeing thread
  shim_resume();
}

// ---- stdio
static Fault *match_fault(int call, int role);
static bool stderr_fails(FILE *f) {
  if (f == stdout) return false;
  if (Fault *ft = match_fault(C_STDERR, R_ANY)) { errno = ft->err; return true; }
  return false;
}
static int cap(FILE *f, const char *fmt, va_list ap) {
  if (stderr_fails(f)) return -1;
  char b[2048];
  int n = vsnprintf(b, sizeof b, fmt, ap);
  if (n < 0) return n;
  size_t len = (size_t)n < sizeof b ? (size_t)n : sizeof b - 1;
  if (f == stdout) S->res->out.append(b, len);
  else if (S->res->err.size() < (1u << 20)) S->res->err.append(b, len);
  return n;
}
int simw_fprintf(FILE *f, const char *fmt, ...) { SHIM; va_list ap; va_start(ap, fmt); int n = cap(f, fmt, ap); va_end(ap); return n; }
int simw_vfprintf(FILE *f, const char *fmt, va_list ap) { SHIM; return cap(f, fmt, ap); }
int simw_printf(const char *fmt, ...) { SHIM; va_list ap; va_start(ap, fmt); int n = cap(stdout, fmt, ap); va_end(ap); return n; }
int simw_fputc(int c, FILE *f) { SHIM; char ch = (char)c; if (f == stdout) S->res->out.append(&ch, 1); else S->res->err.append(&ch, 1); return (unsigned char)c; }
int simw_putc(int c, FILE *f) { SHIM; return simw_fputc(c, f); }
int simw_putchar(int c) { SHIM; return simw_fputc(c, stdout); }
int simw_fputs(const char *str, FILE *f) { SHIM; if (f == stdout) S->res->out.append(str); else S->res->err.append(str); return 1; }
int simw_puts(const char *str) { SHIM; S->res->out.append(str); S->res->out.append("\n"); return 1; }
size_t simw_fwrite(const void *p, size_t sz, size_t n, FILE *f) { SHIM; if (f == stdout) S->res->out.append((const char *)p, sz * n); else S->res->err.append((const char *)p, sz * n); return n; }
int simw_fflush(FILE *f) { SHIM; if (f != stdout && stderr_fails(f)) return EOF; return 0; }
int simw_fclose(FILE *f) { SHIM; (void)f; return 0; }
void simw_setbuf(FILE *f, char *b) { SHIM; (void)f; (void)b; }

// ---- files
static Fault *match_fault(int call, int role) {
  State &s = *S;
  unsigned kany = s.call_cnt[call][R_ANY]++;
  unsigned krole = role != R_ANY ? s.call_cnt[call][role]++ : 0;
  s.res->calls[call][R_ANY] = s.call_cnt[call][R_ANY];
  if (role != R_ANY) s.res->calls[call][role] = s.call_cnt[call][role];
  for (auto &f : s.res->faults) {
    if (f.fired || f.call != call) continue;
    if (f.role == R_ANY ? (unsigned)f.k == kany : (f.role == role && (unsigned)f.k == krole)) {
      f.fired = true; f.fired_step = s.res->steps;
      if (!s.fault_seen) { s.fault_seen = true; s.first_fault_step = s.res->steps; }
      return &f;
    }
  }
  return nullptr;
}
static void note_fault_seen() { State &s = *S; if (!s.fault_seen) { s.fault_seen = true; s.first_fault_step = s.res->steps; } }

static int resolve(const std::string &path, bool follow, std::string *final_name) {
  State &s = *S;
  std::string p = path;
  for (int depth = 0; depth < 9; depth++) {
    auto it = s.world.dir.find(p);
    if (it == s.world.dir.end()) { if (final_name) *final_name = p; return -1; }
    Inode &in = s.world.inodes[it->second];
    if (in.type == T_LNK && follow) { p = in.data; continue; }
    if (final_name) *final_name = p;
    return it->second;
  }
  errno = ELOOP;
  return -2;
}
static int alloc_fd() {      // -1: descriptor table full (EMFILE)
  State &s = *S;
  for (size_t i = 3; i < s.fds.size(); i++) if (!s.fds[i].open) return (int)i;
  if ((int)s.fds.size() >= s.plan->nofile) return -1;
  s.fds.push_back(FdEnt());
  return (int)s.fds.size() - 1;
}
static int role_of_fd(int fd) {
  State &s = *S;
  if (fd < 0 || (size_t)fd >= s.fds.size() || !s.fds[fd].open) return R_ANY;
  return s.fds[fd].role;
}

int simw_open64(const char *path, int flags, ...) { SHIM;
  State &s = *S;
  mode_t mode = 0;
  if (flags & O_CREAT) { va_list ap; va_start(ap, flags); mode = va_arg(ap, mode_t); va_end(ap); }
  point(OP_OPEN, 0);
  int role = (flags & O_ACCMODE) == O_RDONLY ? R_IN : R_OUT;
  if (Fault *f = match_fault(C_OPEN, role)) { ev(OP_OPEN, role, -f->err); errno = f->err; return -1; }
  int r = -1;
  if (!*path) r = -ENOENT;
  else if ((flags & O_ACCMODE) == O_RDONLY) {
    int ino = resolve(path, true, nullptr);
    if (ino == -2) { r = -ELOOP; }
    else if (ino < 0) r = -ENOENT;
    else if (s.world.inodes[ino].noread) r = -EACCES;
    else {
      int fd = alloc_fd();
      if (fd < 0) r = -EMFILE;
      else {
        FdEnt &e = s.fds[fd];
        e = FdEnt(); e.open = true; e.ino = ino; e.role = R_IN; e.rd = true;
        r = fd;
      }
    }
  } else {
    bool excl = (flags & O_EXCL) != 0, creat = (flags & O_CREAT) != 0;
    std::string fin;
    int ino = resolve(path, !excl, &fin);
    if (ino == -2) r = -ELOOP;
    else if (ino >= 0 && excl && creat) r = -EEXIST;
    else if (ino < 0 && !creat) r = -ENOENT;
    else {
      if (ino >= 0 && s.world.inodes[ino].type == T_DIR) r = -EISDIR;
      else {
        int fd = s.fds.size() < (size_t)s.plan->nofile || [&] { for (size_t i = 3; i < s.fds.size(); i++) if (!s.fds[i].open) return true; return false; }() ? 0 : -1;
        if (fd < 0) r = -EMFILE;       // (checked before the file is created, like the kernel)
        else {
          if (ino < 0) {
            Inode n;
            n.type = T_REG; n.mode = mode & 0777 & ~s.plan->umask; n.uid = 1000; n.gid = 1000;
            n.atime_s = n.mtime_s = 1600000000 + (int64_t)(s.res->sim_ns / 1000000000ull); n.atime_ns = n.mtime_ns = 0;
            n.created = true;
            ino = s.world.add(fin, n);
          } else if (flags & O_TRUNC) s.world.inodes[ino].data.clear();
          fd = alloc_fd();
          FdEnt &e = s.fds[fd];
          e = FdEnt(); e.open = true; e.ino = ino; e.role = R_OUT; e.wr = true;
          s.world.inodes[ino].open_wr++;
          s.world.inodes[ino].closed_ok = false;
          r = fd;
        }
      }
    }
  }
  ev(OP_OPEN, role, r < 0 ? r : 0);
  if (r < 0) { errno = -r; return -1; }
  return r;
}
int simw_open(const char *path, int flags, ...) { SHIM;
  mode_t mode = 0;
  if (flags & O_CREAT) { va_list ap; va_start(ap, flags); mode = va_arg(ap, mode_t); va_end(ap); }
  return simw_open64(path, flags, mode);
}

int simw_close(int fd) { SHIM;
  State &s = *S;
  point(OP_CLOSE, fd);
  if (fd < 0 || (size_t)fd >= s.fds.size() || !s.fds[fd].open) { errno = EBADF; return -1; }
  FdEnt &e = s.fds[fd];
  int role = e.role;
  Fault *f = match_fault(C_CLOSE, role);
  // Linux: the descriptor is released even when close() reports an error
  e.open = false;
  if (e.ino >= 0 && e.wr) {
    Inode &in = s.world.inodes[e.ino];
    if (in.open_wr) in.open_wr--;
    if (!f && in.open_wr == 0) in.closed_ok = true;
  }
  ev(OP_CLOSE, role, f ? -f->err : 0);
  if (f) { errno = f->err; return -1; }
  return 0;
}

static size_t cut(const Frag &fr, size_t n, unsigned *counter) {
  State &s = *S;
  size_t r = n;
  // deterministic cost cap: after 20000 cut transfers on this side a run gets full transfers (a 45 MB output written one byte
  // at a time took 143 million decision steps and 45 s without adding anything after the first few thousand calls)
  if (counter && *counter >= 20000 && fr.mode != FR_RANDOM) return n;
  switch (fr.mode) {
  case FR_ONE: r = 1; break;
  case FR_SHORT1: r = n > 1 ? n - 1 : 1; break;
  case FR_FIXED: r = fr.param && fr.param < n ? fr.param : n; break;
  case FR_RANDOM: {
    uint32_t idx = s.nchoice++, dflt = (uint32_t)std::min<size_t>(n, 0xFFFFFFFFu), v = dflt;
    if (s.plan->sched.explicit_) { uint32_t x; if (dev_lookup(idx, &x) && x >= 1 && x <= n) v = x; }
    else if (n > 1 && (fr.param == 0 || s.rng.below(fr.param) == 0)) {
      // bias: small, near-full, or uniform
      uint64_t k = s.rng.below(4);
      if (k == 0) v = (uint32_t)(1 + s.rng.below(std::min<size_t>(n, 8)));
      else if (k == 1) v = (uint32_t)(n - s.rng.below(std::min<size_t>(n, 8)));
      else v = (uint32_t)(1 + s.rng.below(n));
    }
    rec_choice(idx, v, dflt);
    r = v;
    break;
  }
  default: break;
  }
  if (r < n && counter) (*counter)++;
  return r;
}

ssize_t simw_read(int fd, void *buf, size_t n) { SHIM;
  State &s = *S;
  point(OP_READ, fd);
  if (fd < 0 || (size_t)fd >= s.fds.size() || !s.fds[fd].open || !s.fds[fd].rd) { errno = EBADF; return -1; }
  FdEnt &e = s.fds[fd];
  s.res->sim_ns += 20000;
  if (Fault *f = match_fault(C_READ, e.role)) { ev(OP_READ, fd, -f->err); errno = f->err; return -1; }
  const Bytes *data; size_t *pos; const Frag *fr;
  if (e.stdno == 0) {
    if (s.world.in_kind == K_NULL) { ev(OP_READ, fd, 0); return 0; }
    data = &s.plan->world.in_data; pos = &s.in_pos; fr = &s.world.in_frag;
  } else {
    Inode &in = s.world.inodes[e.ino];
    if (in.type == T_DIR) { ev(OP_READ, fd, -EISDIR); errno = EISDIR; return -1; }
    data = &in.data; pos = &e.off; fr = &s.world.file_frag;
    if (in.visible >= 0) {      // another process is appending to the file while lbzip2 reads it
      if ((int)in.reads++ >= in.grow_at || e.off >= (size_t)in.visible) { in.visible = -1; s.res->file_grew++; }
      else { size_t lim = (size_t)in.visible; size_t av = e.off < lim ? lim - e.off : 0; if (n > av) n = av; }
    }
  }
  size_t avail = *pos < data->size() ? data->size() - *pos : 0;
  if (n > avail) n = avail;
  if (n > 0) n = cut(*fr, n, &s.res->frag_cuts);
  user_write(buf, data->data() + *pos, n);
  *pos += n;
  if (n > 0) s.io_progress++;      // only transfers that move data earn step budget (a loop re-reading at end of file must run out of it)
  ev(OP_READ, fd, (int64_t)n);
  return (ssize_t)n;
}

ssize_t simw_write(int fd, const void *buf, size_t n) { SHIM;
  State &s = *S;
  point(OP_WRITE, fd);
  if (RUNNING_ON_VALGRIND && n) (void)VALGRIND_CHECK_MEM_IS_DEFINED(buf, n);    // as the real write(2) would be checked: output must not contain uninitialised bytes
  if (fd < 0 || (size_t)fd >= s.fds.size() || !s.fds[fd].open || !s.fds[fd].wr) { errno = EBADF; return -1; }
  FdEnt &e = s.fds[fd];
  Fiber &me = s.F[s.cur];
  s.res->sim_ns += 30000;
  int err = 0;
  int64_t partial = 0;
  if (e.fail_next) { err = e.fail_err; e.fail_next = false; }
  else if (Fault *f = match_fault(C_WRITE, e.role)) {
    if (f->partial > 0 && n > 1) { partial = std::min<int64_t>(f->partial, (int64_t)n - 1); e.fail_next = true; e.fail_err = f->err; }
    else err = f->err;
  }
  bool is_std = e.stdno == 1;
  if (!err && !partial && is_std && s.world.out_close_after >= 0) {
    int64_t room = s.world.out_close_after - s.out_accepted;
    if (room <= 0) { err = EPIPE; note_fault_seen(); }
    else if ((int64_t)n > room) n = (size_t)room;     // pipe accepts what fits, next write fails
  }
  if (!err && !partial && s.world.out_size_limit >= 0 && (is_std || e.ino >= 0)) {
    int64_t cur_size = is_std ? s.out_accepted : (int64_t)s.world.inodes[e.ino].data.size();
    int64_t room = s.world.out_size_limit - cur_size;
    if (room <= 0) { err = EFBIG; note_fault_seen(); }
    else if ((int64_t)n > room) n = (size_t)room;
  }
  if (err) {
    if (err == EPIPE) me.tpend |= BIT(SIGPIPE);
    if (err == EFBIG) me.tpend |= BIT(SIGXFSZ);
    // a thread-directed signal that is unblocked and not ignored acts immediately
    ev(OP_WRITE, fd, -err);
    deliver_pending();
    errno = err;
    return -1;
  }
  user_read(buf, n);
  if (partial) n = (size_t)partial;
  else if (n > 0) n = cut(s.world.out_frag, n, &s.res->short_writes);
  if (is_std) {
    if (s.world.out_kind != K_NULL) s.res->out.append((const char *)buf, n);
    s.out_accepted += (int64_t)n;
  } else {
    Inode &in = s.world.inodes[e.ino];
    if (e.off > in.data.size()) in.data.resize(e.off, 0);
    in.data.replace(e.off, std::min(n, in.data.size() - e.off), (const char *)buf, n);
    e.off += n;
  }
  // content participates in the history hash (sampled for speed)
  if (n > 0) s.io_progress++;
  ev(OP_WRITE, fd, (int64_t)n);
  return (ssize_t)n;
}

int simw_unlink(const char *path) { SHIM;
  State &s = *S;
  point(OP_UNLINK, 0);
  auto it = s.world.dir.find(path);
  int role = R_ANY;
  if (it != s.world.dir.end()) role = s.world.inodes[it->second].created ? R_OUT : R_IN;
  if (Fault *f = match_fault(C_UNLINK, role)) { ev(OP_UNLINK, role, -f->err); errno = f->err; return -1; }
  if (it == s.world.dir.end()) { ev(OP_UNLINK, role, -ENOENT); errno = ENOENT; return -1; }
  Inode &in = s.world.inodes[it->second];
  if (in.type == T_DIR) { ev(OP_UNLINK, role, -EISDIR); errno = EISDIR; return -1; }
  if (in.nlink) in.nlink--;
  s.world.dir.erase(it);
  ev(OP_UNLINK, role, 0);
  return 0;
}

static void fill_stat(const Inode &in, int ino, struct stat *st) {
  memset(st, 0, sizeof *st);
  static const unsigned tm[] = {0, S_IFREG, S_IFDIR, S_IFLNK, S_IFIFO, S_IFCHR};
  st->st_mode = tm[in.type] | (in.mode & 07777);
  st->st_nlink = in.nlink;
  st->st_uid = in.uid; st->st_gid = in.gid;
  st->st_size = in.type == T_DIR ? 4096 : in.visible >= 0 ? (off_t)in.visible : (off_t)in.data.size();
  st->st_atim.tv_sec = in.atime_s; st->st_atim.tv_nsec = in.atime_ns;
  st->st_mtim.tv_sec = in.mtime_s; st->st_mtim.tv_nsec = in.mtime_ns;
  st->st_ctim = st->st_mtim;
  st->st_ino = 1000 + ino; st->st_dev = 7; st->st_blksize = 4096;
}
int simw_lstat64(const char *path, struct stat *st) { SHIM;
  State &s = *S;
  point(OP_STAT, 0);
  if (Fault *f = match_fault(C_LSTAT, R_IN)) { ev(OP_STAT, 0, -f->err); errno = f->err; return -1; }
  auto it = s.world.dir.find(path);
  if (it == s.world.dir.end()) { ev(OP_STAT, 0, -ENOENT); errno = ENOENT; return -1; }
  fill_stat(s.world.inodes[it->second], it->second, st);
  ev(OP_STAT, 0, 0);
  return 0;
}
int simw_lstat(const char *path, struct stat *st) { SHIM; return simw_lstat64(path, st); }
int simw_fstat64(int fd, struct stat *st) { SHIM;
  State &s = *S;
  point(OP_STAT, 1);
  if (fd < 0 || (size_t)fd >= s.fds.size() || !s.fds[fd].open) { errno = EBADF; return -1; }
  if (Fault *f = match_fault(C_FSTAT, role_of_fd(fd))) { ev(OP_STAT, 1, -f->err); errno = f->err; return -1; }
  FdEnt &e = s.fds[fd];
  if (e.ino < 0) {
    int kind = e.stdno == 0 ? s.world.in_kind : e.stdno == 1 ? s.world.out_kind : K_TTY;
    Inode tmp;
    tmp.type = kind == K_FILE ? T_REG : kind == K_PIPE ? T_FIFO : T_CHR;
    tmp.nlink = 1;
    fill_stat(tmp, 0, st);
    if (e.stdno == 0 && kind == K_FILE) st->st_size = (off_t)s.plan->world.in_data.size();
  } else fill_stat(s.world.inodes[e.ino], e.ino, st);
  ev(OP_STAT, 1, 0);
  return 0;
}
int simw_fstat(int fd, struct stat *st) { SHIM; return simw_fstat64(fd, st); }

static int meta_call(int call, int fd) {
  State &s = *S;
  point(OP_META, call);
  if (fd < 0 || (size_t)fd >= s.fds.size() || !s.fds[fd].open) { errno = EBADF; return -1; }
  if (Fault *f = match_fault(call, role_of_fd(fd))) { ev(OP_META, call, -f->err); errno = f->err; return -1; }
  ev(OP_META, call, 0);
  return 0;
}
int simw_fchown(int fd, uid_t u, gid_t g) { SHIM;
  if (meta_call(C_FCHOWN, fd)) return -1;
  FdEnt &e = S->fds[fd];
  if (e.ino >= 0) { Inode &in = S->world.inodes[e.ino]; if (u != (uid_t)-1) in.uid = u; if (g != (gid_t)-1) in.gid = g; in.mode &= ~06000u; }
  return 0;
}
int simw_fchmod(int fd, mode_t m) { SHIM;
  if (meta_call(C_FCHMOD, fd)) return -1;
  FdEnt &e = S->fds[fd];
  if (e.ino >= 0) S->world.inodes[e.ino].mode = m & 07777;
  return 0;
}
int simw_futimens(int fd, const struct timespec *t) { SHIM;
  if (meta_call(C_FUTIMENS, fd)) return -1;
  FdEnt &e = S->fds[fd];
  if (e.ino >= 0 && t) {
    Inode &in = S->world.inodes[e.ino];
    in.atime_s = t[0].tv_sec; in.atime_ns = t[0].tv_nsec;
    in.mtime_s = t[1].tv_sec; in.mtime_ns = t[1].tv_nsec;
  }
  return 0;
}
int simw_isatty(int fd) { SHIM;
  State &s = *S;
  int r = 0;
  if (fd == 2) r = s.world.err_tty;
  else if (fd >= 0 && (size_t)fd < s.fds.size() && s.fds[fd].open) {
    FdEnt &e = s.fds[fd];
    if (e.stdno == 0) r = s.world.in_kind == K_TTY;
    else if (e.stdno == 1) r = s.world.out_kind == K_TTY;
    else if (e.ino >= 0) r = s.world.inodes[e.ino].type == T_CHR;
  }
  if (!r) errno = ENOTTY;
  return r;
}


// ---- calls the unchanged lbzip2 does not make but a change to it plausibly could (round 2; seeded change C18-3 used
// pthread_detach).  Anything lbzip2 references that is neither modelled here nor a pure function stops the build
// (tools/build.sh) instead of silently running against the real kernel.
int simw_pthread_detach(pthread_t t) { SHIM; int id = (int)t - 1; if (id < 0 || id >= S->nf) return ESRCH; S->F[id].reaped = true; return 0; }   // fibers hold no resources beyond the run
int simw_pthread_equal(pthread_t a, pthread_t b) { return a == b; }
int simw_pthread_mutex_init(pthread_mutex_t *m, const pthread_mutexattr_t *a) { SHIM; (void)a; S->mtx[m].owner = -1; return 0; }
int simw_pthread_mutex_destroy(pthread_mutex_t *m) { SHIM; S->mtx.erase(m); return 0; }
int simw_pthread_mutex_trylock(pthread_mutex_t *m) { SHIM;
  point(OP_LOCK, 1);
  Mutex &M = S->mtx[m];
  if (M.owner != -1) return EBUSY;
  M.owner = S->cur;
  TS_ACQ(m);
  ev(OP_LOCK, oid(m), 1);
  return 0;
}
int simw_pthread_cond_init(pthread_cond_t *c, const pthread_condattr_t *a) { (void)c; (void)a; return 0; }
int simw_pthread_cond_destroy(pthread_cond_t *c) { (void)c; return 0; }
int simw_pthread_attr_init(pthread_attr_t *a) { (void)a; return 0; }
int simw_pthread_attr_destroy(pthread_attr_t *a) { (void)a; return 0; }
int simw_pthread_attr_setdetachstate(pthread_attr_t *a, int d) { (void)a; (void)d; return 0; }
int simw_pthread_attr_setstacksize(pthread_attr_t *a, size_t n) { (void)a; (void)n; return 0; }
int simw_pthread_kill(pthread_t t, int sig) { SHIM;
  int id = (int)t - 1;
  if (id < 0 || id >= S->nf) return ESRCH;
  if (sig == 0) return 0;
  if (sig < 1 || sig > 63) return EINVAL;
  TS_REL(&S->handler[sig]);
  if (S->F[id].state != ST_DONE) S->F[id].tpend |= BIT(sig);
  ev(OP_KILL, sig, id + 1);
  deliver_pending();
  return 0;
}
int simw_raise(int sig) { SHIM; return simw_pthread_kill((pthread_t)(S->cur + 1), sig) ? -1 : 0; }
int simw_sched_yield(void) { SHIM; point(OP_WAKE, 0); return 0; }
static void sim_sleep(uint64_t ns) { S->res->sim_ns += ns; S->F[S->cur].stalled_until = S->res->steps + 1 + ns / 1000000; point(OP_WAKE, 1); }   // a sleeping thread is skipped for ~1 decision per ms while others can run
int simw_nanosleep(const struct timespec *rq, struct timespec *rm) { SHIM; if (rm) { rm->tv_sec = 0; rm->tv_nsec = 0; } if (rq) sim_sleep((uint64_t)rq->tv_sec * 1000000000ull + (uint64_t)rq->tv_nsec); return 0; }
int simw_usleep(useconds_t us) { SHIM; sim_sleep((uint64_t)us * 1000); return 0; }
unsigned simw_sleep(unsigned sec) { SHIM; sim_sleep((uint64_t)sec * 1000000000ull); return 0; }
time_t simw_time(time_t *t) { SHIM; time_t v = (time_t)(1600000000 + S->res->sim_ns / 1000000000ull); if (t) *t = v; return v; }
int simw_gettimeofday(struct timeval *tv, void *tz) { SHIM; (void)tz; if (tv) { uint64_t ns = S->res->sim_ns; tv->tv_sec = 1600000000 + ns / 1000000000ull; tv->tv_usec = (ns % 1000000000ull) / 1000; } return 0; }
void simw_exit(int c) { simw__exit(c); }
void *simw_calloc(size_t n, size_t m) { size_t tot = n * m; if (m && tot / m != n) { errno = ENOMEM; return nullptr; } void *p = simw_malloc(tot); if (p) memset(p, 0, tot); return p; }
void *simw_realloc(void *p, size_t n) { SHIM;
  if (!p) return simw_malloc(n);
  auto it = S->live.find(p);
  if (it == S->live.end()) return realloc(p, n);     // not ours
  size_t old = it->second;
  void *q = simw_malloc(n);
  if (!q) return nullptr;
  memcpy(q, p, old < n ? old : n);
  simw_free(p);
  return q;
}
int simw_fsync(int fd) { SHIM; point(OP_META, 100); if (fd < 0 || (size_t)fd >= S->fds.size() || !S->fds[fd].open) { errno = EBADF; return -1; } return 0; }
int simw_fdatasync(int fd) { return simw_fsync(fd); }
int simw_stat64(const char *path, struct stat *st) { SHIM;
  State &s = *S;
  point(OP_STAT, 2);
  int ino = resolve(path, true, nullptr);
  if (ino == -2) { errno = ELOOP; return -1; }
  if (ino < 0) { errno = ENOENT; return -1; }
  fill_stat(s.world.inodes[ino], ino, st);
  return 0;
}
int simw_stat(const char *path, struct stat *st) { return simw_stat64(path, st); }
int simw_chmod(const char *path, mode_t m) { SHIM; point(OP_META, 101); int ino = resolve(path, true, nullptr); if (ino < 0) { errno = ino == -2 ? ELOOP : ENOENT; return -1; } S->world.inodes[ino].mode = m & 07777; return 0; }
int simw_chown(const char *path, uid_t u, gid_t g) { SHIM; point(OP_META, 102); int ino = resolve(path, true, nullptr); if (ino < 0) { errno = ino == -2 ? ELOOP : ENOENT; return -1; } Inode &in = S->world.inodes[ino]; if (u != (uid_t)-1) in.uid = u; if (g != (gid_t)-1) in.gid = g; in.mode &= ~06000u; return 0; }

}  // extern "C"

namespace sim {

// ------------------------------------------------------------------ monitors
static void check_monitors() {
  State &s = *S;
  Result &R = *s.res;
  if (!R.monitor.empty()) return;
  char b[200];
  struct verif_q q[24];
  long st[3][8] = {};
  unsigned n = 0;
  // (TSan: called inside a shim, i.e. with accesses ignored -- the probes are
  // pure observation by the simulator, not accesses of the observed thread)
  n += verif_probe_process(q + n, 8, st[0]);
  n += verif_probe_compress(q + n, 8, st[1]);
  n += verif_probe_expand(q + n, 8, st[2]);
  // counter ranges: only while the compression/decompression scheduler owns the counters.  In
  // -cdf copy mode out_slots is a modulo-2^32 balance used for termination only (it transiently
  // wraps below zero when the reader reuses a buffer before the writer has re-credited it; the
  // buffers themselves are bounded by in_slots), so no range is implied there.
  if (st[0][2] == 1 || st[0][2] == 2) {
    if (work_units > num_worker && num_worker) { snprintf(b, sizeof b, "counter: work_units=%u exceeds num_worker=%u", work_units, num_worker); R.monitor = b; }
    else if (in_slots > total_in_slots && total_in_slots) { snprintf(b, sizeof b, "counter: in_slots=%u exceeds total_in_slots=%u", in_slots, total_in_slots); R.monitor = b; }
    else if (out_slots > total_out_slots && total_out_slots) { snprintf(b, sizeof b, "counter: out_slots=%u exceeds total_out_slots=%u", out_slots, total_out_slots); R.monitor = b; }
  }
  uint64_t h = fnv(fnv(fnv(1469598103934665603ull, work_units), in_slots), out_slots);
  for (unsigned i = 0; i < n; i++) {
    h = fnv(h, q[i].size);
    if (q[i].size == 0) continue;
    auto it = s.live.find((void *)q[i].root);
    unsigned capq = it == s.live.end() ? 0 : (unsigned)(it->second / q[i].elem);
    auto &m = R.qmax[q[i].name];
    if (q[i].size > m.first) { m.first = q[i].size; m.second = capq; }
    if (R.monitor.empty()) {
      if (it == s.live.end()) { snprintf(b, sizeof b, "capacity: queue %s holds %u items but has no live storage", q[i].name, q[i].size); R.monitor = b; }
      else if (q[i].size > capq) { snprintf(b, sizeof b, "capacity: queue %s holds %u items, capacity %u", q[i].name, q[i].size, capq); R.monitor = b; }
    }
  }
  for (int k = 0; k < 2; k++) h = fnv(fnv(h, (uint64_t)st[1][k]), (uint64_t)st[2][k]);
  h = fnv(h, (uint64_t)st[0][0] * 4 + (uint64_t)st[0][1] * 2);
  if (s.states.size() < 20000) s.states.insert(h);
  if (!R.monitor.empty()) {
    // a monitor hit ends the run at once: the state is already wrong and the
    // replay should stop at the violating step
    end_run(X_MONITOR, 0);
  }
}

// ------------------------------------------------------------------ run
static void fiber_entry(int id) {
#ifdef SIM_ASAN
  { const void *ob; size_t os; __sanitizer_finish_switch_fiber(nullptr, &ob, &os); if (!g_root_bottom) { g_root_bottom = ob; g_root_size = os; } }
#endif
  State &s = *S;
  TS_ACQ(&s.F[id]);
  s.F[id].state = ST_RUN;
  if (id == 0) {
    s.argv_copy = s.plan->argv;
    for (auto &a : s.argv_copy) s.argv_ptrs.push_back(&a[0]);
    s.argv_ptrs.push_back(nullptr);
    lbzip2_main((int)s.argv_copy.size(), s.argv_ptrs.data());
    simw__exit(99);   // main() returned (it never does)
  }
  s.F[id].fn(s.F[id].arg);
  simw_pthread_exit(nullptr);
}

void init() {
  static bool done;
  if (done) return;
  done = true;
  load_symtab();
  mallopt(M_MMAP_THRESHOLD, 32 << 20);
  mallopt(M_TRIM_THRESHOLD, 512 << 20);
  mallopt(M_TOP_PAD, 64 << 20);
  g_dn = __stop_lbz_data - __start_lbz_data;
  g_bn = __stop_lbz_bss - __start_lbz_bss;
  g_snap = (char *)malloc(g_dn + 1);
  rawcpy(g_snap, __start_lbz_data, g_dn);
  tls_init();
}

// Watchdog against a simulated thread that never reaches an intercepted call again (a busy-wait on a flag, an endless loop in
// unsynchronised code): nothing can preempt it in the serialising variants, and in the preempt variant in-region points do not
// consume step budget.  The scheduler stamps every decision; if the stamp has not moved for WATCHDOG_S seconds of real time the run
// is ended from the signal handler as a step-budget overrun.  (Real time enters only here, for runs that would never end.)
static volatile uint64_t g_wd_last_steps;
static volatile int g_wd_strikes;
static void watchdog_tick(int) {
  State *s = S;
  if (!s || s->over || s->cur < 0) { g_wd_strikes = 0; return; }
  uint64_t now = s->res->steps - s->preempt_steps;
  if (now != g_wd_last_steps) { g_wd_last_steps = now; g_wd_strikes = 0; return; }
  if (++g_wd_strikes < 6) return;      // 6 ticks of 30 s without a single scheduler decision
  g_wd_strikes = 0;
  if (s->res->monitor.empty()) s->res->monitor = "liveness: a thread ran for 3 minutes of real time without reaching any intercepted call (busy loop)";
  end_run(X_BUDGET, 0);
}
static void watchdog_arm() {
  static bool installed;
  if (!installed) {
    installed = true;
    struct sigaction sa; memset(&sa, 0, sizeof sa); sa.sa_handler = watchdog_tick; sa.sa_flags = SA_NODEFER | SA_RESTART;
    sigaction(SIGALRM, &sa, nullptr);
    struct itimerval iv; iv.it_interval.tv_sec = 30; iv.it_interval.tv_usec = 0; iv.it_value = iv.it_interval;
    setitimer(ITIMER_REAL, &iv, nullptr);
  }
  g_wd_strikes = 0;
}

Result run(const Plan &plan) {
  init();
  watchdog_arm();
  Result R;
  State *st = new State();
  State &s = *st;
  S = st;
  rawcpy(__start_lbz_data, g_snap, g_dn);
  rawzero(__start_lbz_bss, g_bn);
  s.plan = &plan; s.res = &R;
  s.rng = Rng(mix64(plan.sched.seed, 0x5ca1ab1e));
  R.hash = 14695981039346656037ull; R.ihash = R.hash;
  R.faults = plan.faults; R.sigs = plan.sigs;
  for (auto &f : R.faults) { f.fired = false; f.fired_step = 0; }
  for (auto &e : R.sigs) e.fired = false;
  memset(s.handler, 0, sizeof s.handler);
  memset(s.disp, 0, sizeof s.disp);
  memset(s.call_cnt, 0, sizeof s.call_cnt);
  if (plan.ign_pipe) s.disp[SIGPIPE] = 1;
  if (plan.ign_xfsz) s.disp[SIGXFSZ] = 1;
  // world: everything but the (possibly large) stdin data is copied
  s.world.inodes = plan.world.inodes;
  s.world.dir = plan.world.dir;
  s.world.in_kind = plan.world.in_kind; s.world.in_frag = plan.world.in_frag;
  s.world.out_kind = plan.world.out_kind; s.world.out_frag = plan.world.out_frag;
  s.world.out_close_after = plan.world.out_close_after; s.world.out_size_limit = plan.world.out_size_limit;
  s.world.err_tty = plan.world.err_tty; s.world.file_frag = plan.world.file_frag;
  s.fds.resize(3);
  for (int i = 0; i < 3; i++) { s.fds[i].open = true; s.fds[i].stdno = i; s.fds[i].ino = -1; }
  s.fds[0].rd = true; s.fds[0].role = R_IN;
  s.fds[1].wr = true; s.fds[1].role = R_OUT;
  s.fds[2].wr = true; s.fds[2].role = R_ANY;
  if (plan.sched.policy == P_PCT && !plan.sched.explicit_) {
    unsigned d = 1 + (plan.sched.param % 3);
    for (unsigned i = 0; i < d; i++) s.pct_points.push_back(1 + s.rng.below(50ull << s.rng.below(8)));
    s.pct_low = 1ull << 40;
  }
#ifdef SIM_TSAN
  s.root_ts = __tsan_get_current_fiber();
#endif
  s.preempt_countdown = 1;     // first instrumented access draws the first countdown
  new_fiber(nullptr, nullptr, plan.inherit_mask & ~(BIT(SIGKILL) | BIT(SIGSTOP)), FC_MAIN);
  TS_REL(&s.F[0]);
  ev(OP_START, 0, 0);
  switch_to(-1, 0, false);
  // back in root: run is over
  for (int i = 1; i < s.nf; i++) if (s.F[i].state == ST_DONE && !s.F[i].reaped) R.unreaped_threads++;     // ended, never joined nor detached: stack and thread descriptor stay allocated
  for (auto &kv : s.live) heap_check_block(kv.first, kv.second);
#ifdef SIM_ARENA
  for (auto &kv : s.poisoned) poison_verify(s, kv.first, kv.second);
#endif
  R.final_heap = s.live_bytes;
  for (auto &kv : s.live) {
#ifdef SIM_ASAN
    if (pool_put(kv.first, kv.second)) continue;
#endif
#ifdef SIM_ARENA
    if (in_arena(kv.first)) continue;     // the arena starts empty in the next run anyway
#endif
    free(kv.first);
  }
  s.live.clear();
#ifdef SIM_ARENA
  arena_end_of_run();
#endif
  for (char *c : s.envbuf) free(c);
#ifdef SIM_TSAN
  for (int i = 0; i < s.nf; i++) if (s.F[i].ts) { __tsan_destroy_fiber(s.F[i].ts); s.F[i].ts = nullptr; }
#endif
  R.choices = s.nchoice;
  R.world = std::move(s.world);
  R.states.assign(s.states.begin(), s.states.end());
  R.hash = fnv(fnv(fnv(R.hash, (uint64_t)R.kind), (uint64_t)R.code), hash_bytes(R.out.data(), R.out.size()));
  R.hash = fnv(R.hash, hash_bytes(R.err.data(), R.err.size()));
  for (auto &kv : R.world.dir) {
    R.hash = hash_bytes(kv.first.data(), kv.first.size(), R.hash);
    const Inode &in = R.world.inodes[kv.second];
    R.hash = fnv(hash_bytes(in.data.data(), in.data.size(), R.hash), in.mode);
  }
  S = nullptr;
  delete st;
  return R;
}

std::string Result::describe() const {
  char b[256];
  const char *k = kind == X_EXIT ? "exit" : kind == X_SIGNAL ? "signal" : kind == X_DEADLOCK ? "DEADLOCK" : kind == X_BUDGET ? "STEP_BUDGET" : "killed";
  snprintf(b, sizeof b, "%s %d steps=%llu out=%zu err=%zu", k, code, (unsigned long long)steps, out.size(), err.size());
  std::string r = b;
  if (aborted) r += " [" + abort_msg + "]";
  if (!monitor.empty()) r += " [monitor: " + monitor + "]";
  if (kind == X_DEADLOCK) r += " [" + deadlock_info + "]";
  if (!err.empty()) { r += " stderr=\""; r += err.substr(0, 200); r += "\""; }
  return r;
}

}  // namespace sim
