/* Marker object linked immediately AFTER the lbzip2 objects, see tls_a.c. */
__thread char sim_tls_d_end = 1;
__thread char sim_tls_b_end;
