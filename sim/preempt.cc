// Instrumentation hooks of the "preempt" build variant (see sim.cc preempt_access()).  The lbzip2 objects of
// that variant are compiled with clang -fsanitize=thread, but NO ThreadSanitizer runtime is linked: the calls
// the compiler inserts at every memory access land here and become potential preemption points.
#ifdef SIM_PREEMPT
#include "sim.h"
extern "C" {
void __tsan_init(void) {}
void __tsan_func_entry(void *) {}
void __tsan_func_exit(void) {}
#define ACC(n)                                                       \
  void __tsan_read##n(void *) { sim::preempt_access(); }             \
  void __tsan_write##n(void *) { sim::preempt_access(); }            \
  void __tsan_unaligned_read##n(void *) { sim::preempt_access(); }   \
  void __tsan_unaligned_write##n(void *) { sim::preempt_access(); }
ACC(1) ACC(2) ACC(4) ACC(8) ACC(16)
void __tsan_read_range(void *, unsigned long) { sim::preempt_access(); }
void __tsan_write_range(void *, unsigned long) { sim::preempt_access(); }
void __tsan_vptr_update(void **, void *) {}
void __tsan_vptr_read(void **) {}
}
#endif
