# Builds the harness + simulator objects for each variant.  The lbzip2 objects
# and the final link are done by tools/build.sh from /repo's working tree.
B := build
SRCS := $(wildcard sim/*.cc) $(wildcard harness/*.cc)
HDRS := $(wildcard sim/*.h) $(wildcard harness/*.h)
HV ?= plain

CXXFLAGS_plain := g++ -O2 -g -std=c++17 -Wall -Wextra -Wno-unused-parameter -fno-pic -fno-pie -DSIM_VARIANT='"plain"'
CXXFLAGS_asan  := clang++ -O1 -g -std=c++17 -Wall -Wno-unused-parameter -fno-pic -fno-pie -fsanitize=address,undefined -fno-sanitize-recover=undefined -fno-omit-frame-pointer -DSIM_ASAN -DSIM_VARIANT='"asan"'
CXXFLAGS_preempt := g++ -O2 -g -std=c++17 -Wall -Wextra -Wno-unused-parameter -fno-pic -fno-pie -DSIM_PREEMPT -DSIM_VARIANT='"preempt"'
CXXFLAGS_tsan  := clang++ -O1 -g -std=c++17 -Wall -Wno-unused-parameter -fno-pic -fno-pie -DSIM_TSAN -DSIM_VARIANT='"tsan"'

OBJS := $(patsubst %.cc,$(B)/h-$(HV)/%.o,$(notdir $(SRCS)))
vpath %.cc sim harness

all:
	$(MAKE) HV=plain harness
	$(MAKE) HV=asan harness
	$(MAKE) HV=tsan harness
	$(MAKE) HV=preempt harness

harness: $(B)/h-$(HV)/.stamp

$(B)/h-$(HV)/.stamp: $(OBJS)
	@cat $(OBJS) | sha1sum | cut -c1-16 > $@

$(B)/h-$(HV)/%.o: %.cc $(HDRS)
	@mkdir -p $(B)/h-$(HV)
	$(CXXFLAGS_$(HV)) -Isim -Iharness -c $< -o $@

clean:
	rm -rf $(B)

.PHONY: all harness clean
