#!/bin/bash
# Handling of independently seeded breaking changes (see DESIGN.md section 7.2b).
#   tools/seeded.sh import <name> <srcdir>     copy patch.diff + demonstration + notes from an agent's SEEDED dir to seeded/<name>/
#   tools/seeded.sh verify <name>              fresh scratch worktree: patch applies, builds, 1111 tests pass, demo fails with / passes without
#   tools/seeded.sh detect <name> <Cxx>...     apply to /repo, run the given quick checks, undo; prints DETECTED/missed per check
#   tools/seeded.sh sdetect <name> <Cxx>...    the same against a scratch copy of /repo/src under /var/tmp (VERIF_REPO), /repo untouched
set -u
ROOT=$(cd "$(dirname "$0")/.." && pwd)
cmd=$1; name=$2; shift 2
D=$ROOT/seeded/$name
case $cmd in
import)
  src=$1; mkdir -p "$D"; cp -r "$src"/* "$D"/; ls "$D";;
verify)
  WT=/tmp/vs-$name
  git -C /repo worktree remove --force $WT 2>/dev/null; rm -rf $WT
  git -C /repo worktree add --detach $WT HEAD >/dev/null 2>&1 || exit 2
  ( cd $WT && cmake -G Ninja -B _build_orig -DCMAKE_BUILD_TYPE=RelWithDebInfo >/dev/null && cmake --build _build_orig >/dev/null 2>&1 ) || { echo "orig build failed"; exit 2; }
  ( cd $WT && git apply "$D/patch.diff" ) || { echo "PATCH DOES NOT APPLY"; git -C /repo worktree remove --force $WT; exit 1; }
  ( cd $WT && cmake -G Ninja -B _build -DCMAKE_BUILD_TYPE=RelWithDebInfo >/dev/null && cmake --build _build 2>&1 | grep -E "warning|error" | grep -v "signals.c" ; true )
  [ -x $WT/_build/lbzip2 ] || { echo "patched build failed"; git -C /repo worktree remove --force $WT; exit 1; }
  tests=$(cd $WT && ctest --test-dir _build -j16 --timeout 900 2>&1 | grep -E "tests passed|tests failed" | tail -1)
  echo "suite with patch: $tests"
  demo=$(ls "$D"/demo.sh 2>/dev/null | head -1)
  if [ -n "$demo" ]; then
    ( cd "$D" && timeout 3000 bash ./demo.sh $WT/_build_orig/lbzip2 >/tmp/vs-$name.orig.log 2>&1 ); ro=$?
    ( cd "$D" && timeout 3000 bash ./demo.sh $WT/_build/lbzip2 >/tmp/vs-$name.patched.log 2>&1 ); rp=$?
    echo "demo unpatched: exit $ro ($(tail -1 /tmp/vs-$name.orig.log))"
    echo "demo patched:   exit $rp ($(tail -1 /tmp/vs-$name.patched.log))"
  fi
  git -C /repo worktree remove --force $WT; rm -rf $WT
  ;;
detect)
  [ -z "$(git -C /repo status --porcelain --untracked-files=no)" ] || { echo "/repo has uncommitted changes"; exit 2; }
  git -C /repo apply "$D/patch.diff" || { echo "patch does not apply to /repo"; exit 2; }
  for c in "$@"; do
    out=$(cd $ROOT && VERIF_EVIDENCE_DIR=/var/tmp/lbzsim-seeded-evidence VERIF_REPLAY_DIR=replays/seeded-$name ./check $c quick 2>&1); rc=$?
    cls=$(grep -m1 '^  class=' <<<"$out" | sed 's/^  //')
    if [ $rc -eq 1 ] && grep -q "^VIOLATION property=$c" <<<"$out"; then echo "$name $c: DETECTED [$cls] $(grep -m1 -A2 '^VIOLATION' <<<"$out" | tail -1 | cut -c1-300)"; else echo "$name $c: missed (rc=$rc) $(tail -1 <<<"$out" | cut -c1-200)"; fi
  done
  git -C /repo checkout -- . ; rm -rf /var/tmp/lbzsim-seeded-evidence
  ;;
sdetect)
  SCR=/var/tmp/lbzsim-seeded-$name
  rm -rf $SCR; mkdir -p $SCR; cp -r /repo/src $SCR/src
  ( cd $SCR && patch -s -p1 < "$D/patch.diff" ) || { echo "patch does not apply"; rm -rf $SCR; exit 2; }
  for c in "$@"; do
    out=$(cd $ROOT && VERIF_REPO=$SCR VERIF_EVIDENCE_DIR=/var/tmp/lbzsim-seeded-evidence-$name VERIF_REPLAY_DIR=replays/seeded-$name ./check $c ${SEEDED_TIER:-quick} 2>&1); rc=$?
    cls=$(grep -m1 '^  class=' <<<"$out" | sed 's/^  //')
    if [ $rc -eq 1 ] && grep -q "^VIOLATION property=$c" <<<"$out"; then echo "$name $c: DETECTED [$cls] $(grep -m1 -A2 '^VIOLATION' <<<"$out" | tail -1 | cut -c1-300)"; else echo "$name $c: missed (rc=$rc) $(tail -1 <<<"$out" | cut -c1-200)"; fi
  done
  rm -rf $SCR /var/tmp/lbzsim-seeded-evidence-$name
  ;;
esac
