#!/usr/bin/env python3
"""Sensitivity self-test: apply each mutant to a scratch copy of /repo (outside /repo and /verif),
run the quick checks that are expected to notice, and write mutants/RESULTS.md.
usage: tools/mutants.py [name ...]"""
import os, shutil, subprocess, sys, time, re
ROOT = os.path.dirname(os.path.dirname(os.path.abspath(__file__)))
SCR = '/var/tmp/lbzsim-mut'
M = []
def mut(name, file, old, new, expect, note=''):
    M.append(dict(name=name, file=file, old=old, new=new, expect=expect.split(), note=note))

mut('sched_unlock_drops_finished', 'process.c', 'if (next_task != NULL || process->finished())', 'if (next_task != NULL)', 'C11 C19', 'last wake-up lost: workers / main never learn that the run is over')
mut('transmit_ignores_reservation', 'compress.c', '''    (out_slots > TRANSM_THRESH ||
     (out_slots > 0 && pos_eq(peek(trans_q)->pos, order)));''', '''    (out_slots > 0);''', 'C11 C03', 'output slots can all be taken by blocks that are not next in order: deadlock under a stalled writer')
mut('emit_ignores_reservation', 'expand.c', '''          (out_slots > EMIT_THRESH
           || (out_slots > 0 && !empty(order_q)
               && pos_eq(peek(emit_q)->base, dq_get(order_q, 0).base))));''', '''          (out_slots > 0));''', 'C11 C09', 'same for decompression')
mut('reorder_compares_major_only', 'compress.c', 'return !empty(reord_q) && pos_eq(peek(reord_q)->pos, order);', 'return !empty(reord_q) && peek(reord_q)->pos.major == order.major;', 'C03 C11 C01', 'blocks of a split chunk may be written out of order')
mut('combined_crc_in_transmit', 'compress.c', '''  sink_write_buffer(wblk->buffer, wblk->size, wblk->weight);
  combined_crc = combine_crc(combined_crc, wblk->crc);
''', '''  sink_write_buffer(wblk->buffer, wblk->size, wblk->weight);
''', 'C02 C01 C11', 'order-sensitive CRC folded in completion order instead of stream order', )
mut('unord_q_too_small', 'expand.c', '''  pqueue_init(unord_q, (work_units + out_slots > UNORD_THRESH ?
                        work_units + out_slots - UNORD_THRESH : 0));''', '''  pqueue_init(unord_q, work_units);''', 'C11 C10 C08', 'capacity formula loses the out_slots term')
mut('collect_lookahead_dropped', 'encode.c', 'if (unlikely(q >= qMax && (q > qMax || (p < pLim && *p == last)))) {', 'if (unlikely(q > qMax)) {', 'C04 C02', 'fourth equal byte taken although its count byte no longer fits')
mut('collect_seq_keeps_token', 'compress.c', '''    sched_lock();
    collect_token = true;
    unfinished_work = wblk;
    return;''', '''    sched_lock();
    unfinished_work = wblk;
    return;''', 'C11 C01 C03 C18', 'sequential-mode token never returned when a block is left unfinished')
mut('block_crc_not_compared', 'expand.c', 'if (oblk->status == OK && oblk->crc != ord.hdr.crc)', 'if (oblk->status == OK && oblk->crc != ord.hdr.crc && 0)', 'C15 C05 C07')
mut('stream_crc_not_compared', 'parse.c', '''      if (ps->stored_crc != ps->computed_crc)
        return ERR_STRMCRC;''', '''      if (ps->stored_crc != ps->computed_crc && ps->stream_mode)
        return ERR_STRMCRC;''', 'C15 C05 C07')
mut('stream_crc_only_first_stream', 'parse.c', '''      ps->computed_crc = 0u;
      bits_align(bs);''', '''      bits_align(bs);''', 'C06 C09', 'combined CRC not reset between concatenated streams')
mut('accepts_level_0_header', 'parse.c', 'if (0x6839u < word || 0x6831 > word) {', 'if (0x6839u < word || 0x6830 > word) {', 'C06 C05 C09', 'trailing BZh0 treated as a stream header')
mut('bogus_block_not_rejected', 'expand.c', 'if (empty(order_q) || pos_lt(peek(reord_q)->base, dq_get(order_q, 0).base)) {', 'if (empty(order_q)) {', 'C10 C09 C11', 'blocks found by the scanner only are written to the output')
mut('padding_not_cleared', 'expand.c', '''  memset((char *)buffer + size, 0, missing);''', '''  (void)missing;''', 'C09 C07 C05', 'bytes after the end of file are heap junk instead of zeros')
mut('halt_without_cleanup', 'signals.c', '''  default:
    cleanup();
    terminate(sig);''', '''  default:
    terminate(sig);''', 'C16', 'SIGINT/SIGTERM leave the partial output file behind')
mut('input_removed_before_output_closed', 'main.c', '''            output_regf_uninit(ospec.fd, &instat);
            if (!keep) {
              input_oprnd_rm(operands);
            }''', '''            if (!keep) {
              input_oprnd_rm(operands);
            }
            output_regf_uninit(ospec.fd, &instat);''', 'C16', 'a failing close() of the output now loses the data')
mut('o_excl_dropped', 'main.c', 'O_WRONLY | O_CREAT | O_EXCL,', 'O_WRONLY | O_CREAT | O_TRUNC,', 'C17', 'existing output files are overwritten without -f')
mut('warnings_do_not_set_status', 'main.c', '_exit(warned ? EX_WARN : EX_OK);', '_exit(EX_OK);', 'C17 C18')
mut('nlink_check_dropped', 'main.c', 'if (OM_REGF == outmode && !keep && sbuf->st_nlink > (nlink_t) 1) {', 'if (OM_REGF == outmode && !keep && sbuf->st_nlink > (nlink_t) 2) {', 'C17')
mut('times_not_copied', 'main.c', 'ts[1] = sbuf->st_mtim;', 'ts[1] = sbuf->st_atim;', 'C17')
mut('copy_terminate_tests_in_slots', 'process.c', 'if (eof && out_slots == total_out_slots)', 'if (eof && in_slots == 2)', 'C19 C11', 'copy mode may stop before the last buffer is written')
mut('epipe_message_inverted', 'main.c', 'if (!bail || (EPIPE != x && EFBIG != x)) {', 'if (!bail || (EPIPE == x || EFBIG == x)) {', 'C21 C07', 'diagnostics suppressed for the wrong errors')
mut('write_error_ignored_when_partial', 'process.c', '''      if (-1 == wr) {
        failfx(&ospec, errno, "write()");
      }''', '''      if (-1 == wr) {
        if (errno == ENOSPC && size < 4096)
          break;
        failfx(&ospec, errno, "write()");
      }''', 'C21 C16', 'a full device is ignored for the last small write')
mut('out_slots_unlocked', 'compress.c', '''  free(buffer);

  sched_lock();
  ++out_slots;
  sched_unlock();''', '''  free(buffer);

  ++out_slots;
  sched_lock();
  sched_unlock();''', 'C12', 'introduced data race on a scheduler counter')
mut('encoder_never_freed', 'compress.c', '''  transmit(wblk->enc, wblk->buffer);
  free(wblk->enc);''', '''  transmit(wblk->enc, wblk->buffer);''', 'C13', 'per-block buffer never released')
mut('double_output_slots', 'process.c', 'total_out_slots = 16u * num_worker;', 'total_out_slots = 40u * num_worker;', 'C13', 'slot count change raises peak memory')
mut('parse_token_lost_on_more', 'expand.c', '''    VERIF_REACH("x.parse.more");
    parse_token = true;''', '''    VERIF_REACH("x.parse.more");''', 'C11 C09 C01', 'parser token lost when the parser runs out of input')
mut('order_q_one_too_small', 'expand.c', 'deque_init(order_q, work_units + out_slots);', 'deque_init(order_q, work_units + out_slots - 2);', 'C11 C08', 'queue capacity off by two')
mut('emit_threshold_off_by_one', 'expand.c', '          (out_slots > EMIT_THRESH\n', '          (out_slots >= EMIT_THRESH\n', 'C11 C08', 'one more speculative block than unord_q can hold (seeded C08-2/C11-2): needs a stalled in-order worker and >= 17W-2 tiny blocks')
mut('encoder_scratch_table_shared', 'encode.c', '    uint64_t len_pack[MAX_ALPHA_SIZE + 1];\n', '    static uint64_t len_pack[MAX_ALPHA_SIZE + 1];\n', 'C03 C12', 'scratch table shared by all workers in lock-free code (seeded C03-2): only interleavings inside unsynchronised code show it')
mut('ftab_not_cleared', 'decode.c', '    memset(ds->ftab, 0, sizeof(ds->ftab));', '    ;', 'C08', 'decoder frequency table used uninitialised (heap): decisions on uninitialised memory')
mut('cmap_not_cleared', 'encode.c', '  memset(s->cmap, 0, 256u * sizeof(bool));', '  ;', 'C08', 'encoder symbol map used uninitialised')
mut('retrieve_fix_reverted', 'expand.c', 'if (rb->curr_pos.offset < head_offs) {\n      /* The master', 'if (0 && rb->curr_pos.offset < head_offs) {\n      /* The master', 'C10 C09', 'reverts fix 8005bac')
mut('delta_fix_reverted', 'decode.c', '''        if (unlikely(rs->code_len[rs->j] + HI[k] > MAX_CODE_LENGTH ||
                     rs->code_len[rs->j] < MIN_CODE_LENGTH + LO[k]))
          return ERR_DELTA;
''', '', 'C05 C07', 'reverts fix 0a9224e')

def run(cmd, env=None, timeout=3000):
    t = time.time()
    p = subprocess.run(cmd, shell=True, cwd=ROOT, env=env, stdout=subprocess.PIPE, stderr=subprocess.STDOUT, timeout=timeout, text=True)
    return p.returncode, p.stdout, time.time() - t

def main():
    only = set(sys.argv[1:])
    rows = []
    for m in M:
        if only and m['name'] not in only: continue
        shutil.rmtree(SCR, ignore_errors=True)
        os.makedirs(SCR)
        shutil.copytree('/repo/src', SCR + '/src')
        p = SCR + '/src/' + m['file']
        s = open(p).read()
        if s.count(m['old']) != 1:
            rows.append((m['name'], 'PATCH DOES NOT APPLY', '', '', m['note'])); print(m['name'], 'does not apply'); continue
        open(p, 'w').write(s.replace(m['old'], m['new']))
        subprocess.run('diff -u /repo/src/%s %s > %s/mutants/%s.patch' % (m['file'], p, ROOT, m['name']), shell=True)
        env = dict(os.environ, VERIF_REPO=SCR, VERIF_SEED=os.environ.get('VERIF_SEED', '1'), VERIF_EVIDENCE_DIR='/var/tmp/lbzsim-mut-evidence', VERIF_REPLAY_DIR='replays/mutants')
        res = []
        for c in m['expect']:
            rc, out, dt = run('./check %s quick' % c, env)
            viol = re.findall(r'VIOLATION property=(\S+) replay=(\S+)', out)
            cls = re.findall(r'^  class=(\S+)', out, re.M)
            res.append('%s: %s%s (%.0fs)' % (c, 'DETECTED' if rc == 1 and viol else 'missed' if rc == 0 else 'rc=%d' % rc, ' [' + cls[0] + ']' if cls else '', dt))
            print(m['name'], res[-1], flush=True)
        rows.append((m['name'], m['file'], '; '.join(res), 'yes' if any('DETECTED' in r for r in res) else 'NO', m['note']))
        shutil.rmtree(SCR, ignore_errors=True)
    # restore evidence and drop replays of mutant runs
    subprocess.run('rm -rf replays/mutants /var/tmp/lbzsim-mut-evidence', shell=True, cwd=ROOT)
    with open(ROOT + '/mutants/RESULTS.md', 'a' if only else 'w') as f:
        if not only:
            f.write('# Sensitivity of the quick checks to hand-written mutants\n\nEach mutant compiles and is applied to a scratch copy of /repo (never to /repo itself); "expected" checks are run in their quick tier with VERIF_SEED=%s.\n\n| mutant | file | result per expected check | detected | what it breaks |\n|---|---|---|---|---|\n' % os.environ.get('VERIF_SEED', '1'))
        for r in rows: f.write('| %s | %s | %s | %s | %s |\n' % r)
main()
