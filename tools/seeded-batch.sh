#!/bin/bash
# tools/seeded-batch.sh <name> <Cxx>...  : verify + sdetect one seeded change, log to build/logs/seeded-<name>.log
cd "$(dirname "$0")/.." || exit 2
n=$1; shift
mkdir -p build/logs
{ tools/seeded.sh verify $n; VERIF_JOBS=${VERIF_JOBS:-8} tools/seeded.sh sdetect $n "$@"; } 2>&1 | grep -v "^WARNING" | cut -c1-500 > build/logs/seeded-$n.log
