#!/usr/bin/env python3
"""tools/seeded-meta.py <id> <property> <detected-by,comma-separated> <change> <needs> [remark]  -> writes seeded/<id>/meta.json"""
import json, sys, datetime
k, prop, det, chg, needs = sys.argv[1:6]
remark = sys.argv[6] if len(sys.argv) > 6 else ""
d = {"id": k, "property": prop, "change": chg, "needs_to_manifest": needs,
     "origin": "written by an independent sub-agent that saw only the property text and a scratch worktree under /tmp (nothing from /verif)",
     "verified_here": {"how": "tools/seeded.sh verify %s (fresh worktree of /repo HEAD: patch applies, RelWithDebInfo build, ctest 1111/1111 with the patch, author's demo.sh exits non-zero with and zero without the patch)" % k, "result": "confirmed " + datetime.date.today().isoformat()},
     "detected_by_quick_checks": [x for x in det.split(',') if x], "remark": remark,
     "how_run_against_checks": "tools/seeded.sh sdetect %s <checks> (patch applied to a scratch copy of /repo/src under /var/tmp, VERIF_REPO points the build there, ./check <Cxx> quick)" % k}
json.dump(d, open('/verif/seeded/%s/meta.json' % k, 'w'), indent=1)
