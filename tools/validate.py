#!/opt/veriftools/pyvenv/bin/python3
"""Validate MANIFEST.json and evidence/*.json against the schemas in /root/.vp (run with python3-vt)."""
import json, jsonschema, glob, sys
bad = 0
def chk(path, schema):
    global bad
    try:
        jsonschema.validate(json.load(open(path)), json.load(open(schema)))
    except Exception as e:
        bad += 1; print(path, 'INVALID:', str(e)[:300])
chk('/verif/MANIFEST.json', '/root/.vp/MANIFEST.schema.json')
for f in sorted(glob.glob('/verif/evidence/*.json')): chk(f, '/root/.vp/EVIDENCE.schema.json')
m = json.load(open('/verif/MANIFEST.json'))
props = [json.loads(l)['id'] for l in open('/verif/properties.jsonl')]
claimed = [c['property_id'] for c in m['checks']]; na = [n['property_id'] for n in m.get('not_applicable', [])]
for p in props:
    if (p in claimed) == (p in na): bad += 1; print(p, 'must be claimed xor not_applicable')
print('ok' if not bad else 'PROBLEMS: %d' % bad); sys.exit(1 if bad else 0)
