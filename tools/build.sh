#!/bin/bash
# Build lbzsim for one variant from /repo's current working tree.
# usage: tools/build.sh <plain|ndebug|asan|tsan>   -> prints path of the binary
set -e
V=${1:-plain}
ROOT=$(cd "$(dirname "$0")/.." && pwd)
REPO=${VERIF_REPO:-/repo}
B=$ROOT/build
mkdir -p "$B"
case $V in
  plain)  CC=gcc;   CXX=g++;     LF="-O2";            HV=plain; LSAN="";;
  ndebug) CC=gcc;   CXX=g++;     LF="-O2 -DNDEBUG";   HV=plain; LSAN="";;
  asan)   CC=clang; CXX=clang++; LF="-O1 -fsanitize=address,undefined -fno-sanitize-recover=undefined -fno-omit-frame-pointer"; HV=asan; LSAN="-fsanitize=address,undefined";;
  asan-ndebug) CC=clang; CXX=clang++; LF="-O1 -DNDEBUG -fsanitize=address,undefined -fno-sanitize-recover=undefined -fno-omit-frame-pointer"; HV=asan; LSAN="-fsanitize=address,undefined";;
  tsan)   CC=clang; CXX=clang++; LF="-O1 -fsanitize=thread"; HV=tsan; LSAN="-fsanitize=thread";;
  vg)     CC=gcc;   CXX=g++;     LF="-O1";            HV=plain; LSAN="";;   # run under valgrind memcheck by ./check (uninitialised-value decisions, C08)
  preempt) CC=clang; CXX=g++;    LF="-O1 -fsanitize=thread"; HV=preempt; LSAN="";;   # instrumentation only, hooks in sim/preempt.cc, no TSan runtime
  *) echo "unknown variant $V" >&2; exit 2;;
esac
DEFS='-std=gnu99 -g -fno-pic -fno-pie -Dmain=lbzip2_main -D_XOPEN_SOURCE=700 -D_FILE_OFFSET_BITS=64 -DPACKAGE_NAME=\"lbzip2\" -DPACKAGE_VERSION=\"devel\" -DKJN_LBZIP2_VERIF'
H=$( (cat "$REPO"/src/*.c "$REPO"/src/*.h "$ROOT/sim/redirect.syms" "$ROOT"/sim/tls_?.c; echo "$V $LF $DEFS") | sha1sum | cut -c1-16)
exec 9>"$B/.lock"
flock 9
# harness objects (no-op when up to date)
make -s -C "$ROOT" -j16 HV=$HV harness >&2
L=$B/lbz-$V-$H
if [ ! -f "$L/.done" ]; then
  rm -rf "$L.tmp"; mkdir -p "$L.tmp"
  echo "$LF $DEFS -w" > "$L.tmp/flags.rsp"
  REDEF=$(awk '{printf "--redefine-sym %s=%s ", $1, $2}' "$ROOT/sim/redirect.syms")
  ls "$REPO"/src/*.c | xargs -P 16 -I{} sh -c '
    f={}; b=$(basename $f .c)
    '"$CC @$L.tmp/flags.rsp"' -c $f -o '"$L.tmp"'/$b.o || exit 255
    objcopy --rename-section .data=lbz_data --rename-section .bss=lbz_bss '"$REDEF"' '"$L.tmp"'/$b.o || exit 255
  ' >&2
  # Guard: every external symbol the lbzip2 objects reference must be modelled by the simulator (simw_*), a hook (verif_*), compiler
  # or sanitizer support, or a pure libc function.  Anything else (a system call the stub does not know) would run against the real
  # kernel outside the simulation; refuse to build instead of judging such a tree.
  ALLOWED='^(simw_.*|verif_.*|_GLOBAL_OFFSET_TABLE_|__tls_get_addr|__errno_location|__stack_chk_fail|__(asan|ubsan|tsan|msan|sanitizer)_.*|__[a-z0-9_]*_chk|std(err|out|in)|(mem|str|wcs|wmem)[a-z0-9_]*|(is|to)(alnum|alpha|ascii|blank|cntrl|digit|graph|lower|print|punct|space|upper|xdigit)|__ctype_[a-z_]*|sig(addset|delset|emptyset|fillset|ismember)|v?sn?printf|v?sscanf|qsort|bsearch|l?l?abs|l?l?div|ato[ifl]+|ffsl?l?|__(u?div|u?mod|popcount|clz|ctz|mul|ashl|ashr|lshr|bswap|ffs|parity|cmp|ucmp|neg)[a-z0-9]*|(floor|ceil|sqrt|log|log2|exp|pow|fabs|round)[fl]?)$'
  UNKNOWN=$(comm -23 <(nm -u "$L.tmp"/*.o | awk 'NF==2{print $2}' | sort -u) <(nm --defined-only "$L.tmp"/*.o | awk 'NF==3{print $3}' | sort -u) | grep -Ev "$ALLOWED" | tr '\n' ' ')
  if [ -n "$UNKNOWN" ]; then
    echo "lbzsim: the lbzip2 sources reference external symbols that the simulator does not model: $UNKNOWN" >&2
    echo "lbzsim: refusing to build (sim/redirect.syms + sim/sim.cc must learn them first)" >&2
    rm -rf "$L.tmp"; exit 4
  fi
  # TLS range markers around the lbzip2 objects (glob order at link time: 00_* first, zz_* last)
  $CC @$L.tmp/flags.rsp -c "$ROOT/sim/tls_a.c" -o "$L.tmp/00_tls_a.o" >&2
  $CC @$L.tmp/flags.rsp -c "$ROOT/sim/tls_z.c" -o "$L.tmp/zz_tls_z.o" >&2
  touch "$L.tmp/.done"
  rm -rf "$L"; mv "$L.tmp" "$L"
  # keep the cache small: drop all but the 3 newest object sets of this variant
  # (never anything younger than an hour: a check of another tree may be running from it)
  for old in $(ls -dt "$B"/lbz-$V-* 2>/dev/null | tail -n +4); do [ -n "$(find "$old" -maxdepth 0 -mmin +60)" ] && rm -rf "$old"; done
  for old in $(ls -t "$B"/bin/lbzsim-$V-* 2>/dev/null | grep -v '\.hs$' | tail -n +4); do [ -n "$(find "$old" -maxdepth 0 -mmin +60)" ] && rm -f "$old" "$old.hs"; done
fi
mkdir -p "$B/bin"
OUT=$B/bin/lbzsim-$V-$H
HS=$(cat "$B/h-$HV/.stamp" 2>/dev/null || echo none)
if [ ! -x "$OUT" ] || [ "$(cat "$OUT.hs" 2>/dev/null)" != "$HS" ]; then
  $CXX -no-pie $LSAN -o "$OUT.tmp" "$B"/h-$HV/*.o "$L"/*.o -lbz2 -lpthread >&2
  mv "$OUT.tmp" "$OUT"
  echo "$HS" > "$OUT.hs"
fi
echo "$OUT"
