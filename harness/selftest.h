#pragma once
#include <string>
#include <cstdint>
namespace selftest { int run(const std::string &name, int argc, char **argv, uint64_t seed, int jobs); }
