// Independent bzip2 reference decoder, inspector, libbz2 wrapper, stream generator.
#include "bz.h"

#include <bzlib.h>
#include <string.h>

#include <algorithm>
#include <numeric>

extern "C" int BZ2_rNums[512];   // format constant, taken from libbz2 (not from lbzip2)

namespace bz {

// ------------------------------------------------------------------ CRC
static uint32_t g_crc[256];
static bool g_crc_init;
static void crc_init() {
  for (uint32_t i = 0; i < 256; i++) {
    uint32_t c = i << 24;
    for (int k = 0; k < 8; k++) c = (c & 0x80000000u) ? (c << 1) ^ 0x04C11DB7u : (c << 1);
    g_crc[i] = c;
  }
  g_crc_init = true;
}
uint32_t crc32_bz(const unsigned char *p, size_t n, uint32_t crc) {
  if (!g_crc_init) crc_init();
  for (size_t i = 0; i < n; i++) crc = (crc << 8) ^ g_crc[(crc >> 24) ^ p[i]];
  return crc;
}

// ------------------------------------------------------------------ bit reader
struct BitReader {
  const unsigned char *p;
  size_t n;
  uint64_t pos = 0;   // bit position
  bool eof = false;
  BitReader(const Bytes &b) : p((const unsigned char *)b.data()), n(b.size()) {}
  uint64_t bits_left() const { return n * 8 - pos; }
  unsigned bit() {
    if (pos >= n * 8) { eof = true; return 0; }
    unsigned b = (p[pos >> 3] >> (7 - (pos & 7))) & 1;
    pos++;
    return b;
  }
  uint32_t get(int k) {
    uint32_t v = 0;
    if (pos + k <= n * 8 && k <= 32) {
      // fast path
      uint64_t acc = 0;
      size_t byte = pos >> 3;
      int avail = 0;
      int off = pos & 7;
      while (avail < off + k) { acc = (acc << 8) | p[byte++]; avail += 8; }
      acc >>= (avail - off - k);
      v = (uint32_t)(acc & (k == 32 ? 0xFFFFFFFFull : ((1ull << k) - 1)));
      pos += k;
      return v;
    }
    for (int i = 0; i < k; i++) v = (v << 1) | bit();
    return v;
  }
};

// ------------------------------------------------------------------ refdec
static bool decode_block(BitReader &br, BlockInfo &bi, int level, Bytes &out, std::string &why, bool &exception, std::string &exwhy) {
  bi.randomised = br.get(1);
  bi.primary = br.get(24);
  unsigned big = br.get(16);
  unsigned char seq2unseq[256];
  unsigned ninuse = 0;
  for (int i = 0; i < 16; i++)
    if (big & (0x8000u >> i)) {
      unsigned small = br.get(16);
      for (int j = 0; j < 16; j++)
        if (small & (0x8000u >> j)) seq2unseq[ninuse++] = (unsigned char)(i * 16 + j);
    }
  if (br.eof) { why = "truncated"; return false; }
  bi.ninuse = ninuse;
  if (ninuse == 0) { why = "empty alphabet"; return false; }
  unsigned alpha = ninuse + 2;
  bi.ntables = br.get(3);
  if (bi.ntables < 2 || bi.ntables > 6) { why = "bad number of tables"; return false; }
  bi.nselectors = br.get(15);
  if (bi.nselectors < 1) { why = "no selectors"; return false; }
  std::vector<uint8_t> selmtf(bi.nselectors);
  for (unsigned i = 0; i < bi.nselectors; i++) {
    unsigned j = 0;
    while (br.bit()) { j++; if (j >= bi.ntables) { why = br.eof ? "truncated" : "selector out of range"; return false; } }
    if (br.eof) { why = "truncated"; return false; }
    selmtf[i] = (uint8_t)j;
  }
  std::vector<uint8_t> sel(bi.nselectors);
  {
    uint8_t pos[6];
    for (unsigned v = 0; v < bi.ntables; v++) pos[v] = (uint8_t)v;
    for (unsigned i = 0; i < bi.nselectors; i++) {
      uint8_t v = selmtf[i], tmp = pos[v];
      for (; v > 0; v--) pos[v] = pos[v - 1];
      pos[0] = tmp;
      sel[i] = tmp;
    }
  }
  bi.lens.assign(bi.ntables, std::vector<uint8_t>(alpha));
  for (unsigned t = 0; t < bi.ntables; t++) {
    int curr = (int)br.get(5);
    for (unsigned i = 0; i < alpha; i++) {
      int dir = 0;
      for (;;) {
        if (curr < 1 || curr > 20) { why = br.eof ? "truncated" : "code length out of 1..20"; return false; }
        if (!br.bit()) break;
        if (br.bit()) { curr--; if (dir > 0) bi.zigzag = true; dir = -1; }
        else { curr++; if (dir < 0) bi.zigzag = true; dir = 1; }
        if (br.eof) { why = "truncated"; return false; }
      }
      bi.lens[t][i] = (uint8_t)curr;
      if ((unsigned)curr > bi.maxlen) bi.maxlen = curr;
    }
  }
  if (br.eof) { why = "truncated"; return false; }
  // canonical decode tables
  struct Tab { int minlen, maxlen; int32_t limit[22], base[22]; uint16_t perm[258]; };
  std::vector<Tab> tab(bi.ntables);
  bi.kraft.assign(bi.ntables, 0);
  bi.table_used.assign(bi.ntables, false);
  bi.freq.assign(bi.ntables, std::vector<uint32_t>(alpha, 0));
  for (unsigned t = 0; t < bi.ntables; t++) {
    Tab &T = tab[t];
    uint64_t k = 0;
    T.minlen = 32; T.maxlen = 0;
    for (unsigned i = 0; i < alpha; i++) {
      int l = bi.lens[t][i];
      k += 1ull << (20 - l);
      T.minlen = std::min(T.minlen, l); T.maxlen = std::max(T.maxlen, l);
    }
    bi.kraft[t] = k == (1ull << 20) ? 0 : k < (1ull << 20) ? -1 : 1;
    int pp = 0;
    for (int l = T.minlen; l <= T.maxlen; l++)
      for (unsigned i = 0; i < alpha; i++) if (bi.lens[t][i] == l) T.perm[pp++] = (uint16_t)i;
    int count[22] = {0};
    for (unsigned i = 0; i < alpha; i++) count[bi.lens[t][i]]++;
    int64_t code = 0; int idx = 0;
    for (int l = 1; l <= 20; l++) {
      int64_t first = code;
      T.base[l] = (int32_t)(idx - first);          // perm index = code + base
      T.limit[l] = (int32_t)(first + count[l] - 1);   // last code of this length (first-1 if none)
      code = (first + count[l]) << 1;
      idx += count[l];
      if (code > (1ll << 28)) code = 1ll << 28;   // oversubscribed: saturate, such a table is never used for decoding
    }
  }
  // MTF symbols
  size_t cap = (size_t)level * 100000;
  std::vector<unsigned char> tt;
  tt.reserve(std::min<size_t>(cap, 1 << 20));
  unsigned char mtf[256];
  for (unsigned i = 0; i < ninuse; i++) mtf[i] = (unsigned char)i;
  unsigned EOB = ninuse + 1;
  uint64_t run = 0; int shift = 0;
  unsigned ngroups = std::min(bi.nselectors, 18002u);
  unsigned g = 0, left = 0;
  Tab *T = nullptr; unsigned tcur = 0;
  for (;;) {
    if (left == 0) {
      if (g >= ngroups) { why = "block not terminated within its selectors"; return false; }
      tcur = sel[g++];
      T = &tab[tcur];
      left = 50;
      bi.table_used[tcur] = true;
      if (bi.kraft[tcur] > 0) { why = "group coded with an oversubscribed table"; return false; }
      if (bi.kraft[tcur] < 0 && !exception) { exception = true; exwhy = "group coded with an incomplete table"; }
    }
    left--;
    int l = T->minlen;
    int64_t code = br.get(l);
    while (code > T->limit[l]) {   // no code of this length matches: extend by one bit
      l++;
      if (l > 20) break;
      code = (code << 1) | br.bit();
    }
    if (br.eof) { why = "truncated"; return false; }
    if (l > 20) { why = "bit pattern is no code word"; return false; }
    int64_t pi = code + T->base[l];
    if (pi < 0 || pi >= (int64_t)alpha) { why = "bit pattern is no code word"; return false; }
    unsigned s = T->perm[pi];
    bi.freq[tcur][s]++;
    if (s <= 1) {   // RUNA / RUNB
      if (shift > 40) { why = "run too long"; return false; }
      run += (uint64_t)(s + 1) << shift;
      shift++;
      if (run > 4000000) { why = "run too long"; return false; }
      continue;
    }
    if (run) {
      if (tt.size() + run > cap) { why = "block overflows its declared size"; return false; }
      tt.insert(tt.end(), (size_t)run, seq2unseq[mtf[0]]);
      run = 0; shift = 0;
    }
    if (s == EOB) break;
    unsigned idx = s - 1;
    unsigned char v = mtf[idx];
    memmove(mtf + 1, mtf, idx);
    mtf[0] = v;
    if (tt.size() + 1 > cap) { why = "block overflows its declared size"; return false; }
    tt.push_back(seq2unseq[v]);
  }
  bi.ngroups_used = g;
  bi.nblock = (unsigned)tt.size();
  if (tt.empty()) { why = "empty block"; return false; }
  if (bi.primary >= tt.size()) { why = "primary index outside the block"; return false; }
  // inverse BWT
  size_t n = tt.size();
  std::vector<uint32_t> T2(n);
  {
    uint32_t cf[257] = {0};
    for (size_t i = 0; i < n; i++) cf[tt[i] + 1]++;
    for (int i = 0; i < 256; i++) cf[i + 1] += cf[i];
    for (size_t i = 0; i < n; i++) T2[cf[tt[i]]++] = (uint32_t)i;
  }
  std::vector<unsigned char> blk(n);
  {
    uint32_t pos = T2[bi.primary];
    for (size_t i = 0; i < n; i++) { blk[i] = tt[pos]; pos = T2[pos]; }
  }
  if (bi.randomised) {
    // exactly bzip2's BZ_RAND_UPD_MASK / BZ_RAND_MASK
    int togo = 0, tpos = 0;
    for (size_t i = 0; i < n; i++) {
      if (togo == 0) { togo = BZ2_rNums[tpos]; tpos = (tpos + 1) & 511; }
      togo--;
      if (togo == 1) blk[i] ^= 1;
    }
  }
  // undo initial run-length encoding
  bi.out_off = out.size();
  {
    size_t i = 0;
    int eq = 0; int last = -1;
    while (i < n) {
      unsigned char c = blk[i++];
      if (eq == 4) {   // c is a count
        out.append((size_t)c, (char)last);
        eq = 0; last = -1;
        continue;
      }
      out.push_back((char)c);
      if (c == last) eq++; else { eq = 1; last = c; }
    }
    if (eq == 4 && !exception) { exception = true; exwhy = "block ends in four equal bytes with no count byte"; }
  }
  bi.out_len = out.size() - bi.out_off;
  bi.crc_calc = ~crc32_bz((const unsigned char *)out.data() + bi.out_off, bi.out_len);
  if (bi.crc_calc != bi.crc_stored) { why = "block CRC mismatch"; return false; }
  return true;
}

DecResult refdec(const Bytes &in) {
  DecResult R;
  BitReader br(in);
  size_t off = 0;
  bool exception = false; std::string exwhy;
  for (;;) {
    // stream header at byte offset off
    size_t rem = in.size() - off;
    bool full_hdr = rem >= 4 && in[off] == 'B' && in[off + 1] == 'Z' && in[off + 2] == 'h' && in[off + 3] >= '1' && in[off + 3] <= '9';
    if (!full_hdr) {
      if (R.streams.empty()) { R.verdict = V_INVALID; R.reason = "not a bzip2 file"; return R; }
      R.trailing = rem;   // ignored: does not begin with a full BZh1..BZh9 header
      break;
    }
    StreamInfo si;
    si.start_byte = off;
    si.level = in[off + 3] - '0';
    br.pos = (uint64_t)(off + 4) * 8;
    uint32_t comb = 0;
    for (;;) {
      uint64_t p0 = br.pos;
      uint64_t hi = br.get(24), lo = br.get(24);
      if (br.eof) { R.streams.push_back(si); R.verdict = V_INVALID; R.reason = "truncated"; return R; }
      uint64_t magic = (hi << 24) | lo;
      if (magic == 0x314159265359ull) {
        BlockInfo bi;
        bi.bitpos = p0;
        bi.crc_bitpos = br.pos;
        bi.crc_stored = br.get(32);
        std::string why;
        bool ok = !br.eof && decode_block(br, bi, si.level, R.out, why, exception, exwhy);
        if (!ok) {
          si.blocks.push_back(bi); R.streams.push_back(si);
          R.verdict = V_INVALID; R.reason = br.eof ? "truncated" : why;
          // libbz2 happens to decode some of these; no conforming encoder writes them and the property text does not name them
          if (R.reason == "group coded with an oversubscribed table") R.verdict = V_UNCERTAIN;
          return R;
        }
        bi.end_bitpos = br.pos;
        comb = ((comb << 1) | (comb >> 31)) ^ bi.crc_stored;
        si.blocks.push_back(bi);
        continue;
      }
      if (magic == 0x177245385090ull) {
        si.crc_bitpos = br.pos;
        si.crc_stored = br.get(32);
        if (br.eof) { R.streams.push_back(si); R.verdict = V_INVALID; R.reason = "truncated"; return R; }
        si.crc_calc = comb;
        if (si.crc_stored != comb) { R.streams.push_back(si); R.verdict = V_INVALID; R.reason = "stream CRC mismatch"; return R; }
        off = (size_t)((br.pos + 7) / 8);
        si.end_byte = off;
        R.streams.push_back(si);
        break;
      }
      R.streams.push_back(si);
      R.verdict = V_INVALID; R.reason = "bad block header magic";
      return R;
    }
    if (off >= in.size()) break;
  }
  R.verdict = exception ? V_EXCEPTION : V_VALID;
  if (exception) R.reason = exwhy;
  return R;
}

std::string inspect(const DecResult &d, int level) {
  if (d.verdict != V_VALID) return "not valid: " + d.reason;
  if (d.streams.size() != 1) return "expected exactly one stream";
  if (d.trailing) return "trailing bytes after the stream";
  const StreamInfo &s = d.streams[0];
  if (s.level != level) return "header digit differs from the requested level";
  for (size_t b = 0; b < s.blocks.size(); b++) {
    const BlockInfo &bi = s.blocks[b];
    char pre[64]; snprintf(pre, sizeof pre, "block %zu: ", b);
    if (bi.randomised) return std::string(pre) + "randomised";
    if (bi.nblock > (unsigned)level * 100000u) return std::string(pre) + "more than level*100000 run-length-encoded bytes";
    if (bi.primary >= bi.nblock) return std::string(pre) + "primary index outside";
    if (bi.ntables < 2 || bi.ntables > 6) return std::string(pre) + "table count";
    if (bi.nselectors > 18002) return std::string(pre) + "more than 18002 selectors";
    for (unsigned t = 0; t < bi.ntables; t++) {
      if (bi.kraft[t] != 0) return std::string(pre) + (bi.table_used[t] ? "used" : "unused") + " table is not complete";
      for (auto l : bi.lens[t]) if (l < 1 || l > 20) return std::string(pre) + "code length outside 1..20";
    }
  }
  return "";
}

// ------------------------------------------------------------------ libbz2
LibResult libbz2_decode(const Bytes &in) {
  LibResult R;
  size_t off = 0;
  int nstreams = 0;
  std::vector<char> buf(1 << 16);
  while (off < in.size() || nstreams == 0) {
    bz_stream bs;
    memset(&bs, 0, sizeof bs);
    if (BZ2_bzDecompressInit(&bs, 0, 0) != BZ_OK) { R.err = -100; return R; }
    bs.next_in = (char *)in.data() + off;
    bs.avail_in = (unsigned)(in.size() - off);
    int rc;
    size_t out0 = R.out.size();
    for (;;) {
      bs.next_out = buf.data(); bs.avail_out = (unsigned)buf.size();
      rc = BZ2_bzDecompress(&bs);
      R.out.append(buf.data(), buf.size() - bs.avail_out);
      if (rc != BZ_OK) break;
      if (bs.avail_in == 0 && bs.avail_out != 0) { rc = BZ_UNEXPECTED_EOF; break; }
    }
    size_t used = (in.size() - off) - bs.avail_in;
    BZ2_bzDecompressEnd(&bs);
    if (rc == BZ_STREAM_END) { off += used; nstreams++; R.consumed = off; continue; }
    R.out.resize(out0);
    if (nstreams > 0 && rc == BZ_DATA_ERROR_MAGIC) { R.ok = true; R.trailing_ignored = true; return R; }
    R.err = rc;
    return R;
  }
  R.ok = true;
  return R;
}

Bytes libbz2_encode(const Bytes &in, int level) {
  unsigned cap = (unsigned)(in.size() + in.size() / 100 + 700);
  Bytes out(cap, 0);
  int rc = BZ2_bzBuffToBuffCompress(&out[0], &cap, (char *)in.data(), (unsigned)in.size(), level, 0, 0);
  if (rc != BZ_OK) return Bytes();
  out.resize(cap);
  return out;
}

// ------------------------------------------------------------------ bit writer
struct BitWriter {
  Bytes b;
  uint64_t pos = 0;
  void put(uint64_t v, int k) {
    for (int i = k - 1; i >= 0; i--) {
      if ((pos & 7) == 0) b.push_back(0);
      if ((v >> i) & 1) b[pos >> 3] |= (char)(0x80 >> (pos & 7));
      pos++;
    }
  }
  void align() { while (pos & 7) put(0, 1); }
};

// ------------------------------------------------------------------ BWT by prefix doubling
static std::vector<uint32_t> sort_rotations(const std::vector<unsigned char> &s) {
  size_t n = s.size();
  std::vector<uint32_t> sa(n), rank(n), tmp(n);
  std::iota(sa.begin(), sa.end(), 0);
  for (size_t i = 0; i < n; i++) rank[i] = s[i];
  for (size_t k = 1;; k <<= 1) {
    auto cmp = [&](uint32_t a, uint32_t b) {
      if (rank[a] != rank[b]) return rank[a] < rank[b];
      uint32_t ra = rank[(a + k) % n], rb = rank[(b + k) % n];
      return ra < rb;
    };
    std::sort(sa.begin(), sa.end(), cmp);
    tmp[sa[0]] = 0;
    for (size_t i = 1; i < n; i++) tmp[sa[i]] = tmp[sa[i - 1]] + (cmp(sa[i - 1], sa[i]) ? 1 : 0);
    rank = tmp;
    if (rank[sa[n - 1]] == n - 1 || k >= n) break;
  }
  return sa;
}

// RLE1 as every bzip2 encoder does it
static void rle1(const Bytes &plain, std::vector<unsigned char> &out) {
  size_t i = 0, n = plain.size();
  while (i < n) {
    unsigned char c = plain[i];
    size_t j = i;
    while (j < n && (unsigned char)plain[j] == c && j - i < 259) j++;
    size_t len = j - i;
    if (len < 4) out.insert(out.end(), len, c);
    else { out.insert(out.end(), 4, c); out.push_back((unsigned char)(len - 4)); }
    i = j;
  }
}
size_t rle_len(const unsigned char *p, size_t n) {
  size_t i = 0, r = 0;
  while (i < n) {
    size_t j = i;
    while (j < n && p[j] == p[i] && j - i < 259) j++;
    r += (j - i) < 4 ? (j - i) : 5;
    i = j;
  }
  return r;
}

const char *defect_name(int d) {
  static const char *n[] = {"none", "delta-high", "delta-low", "delta-start0", "delta-start21", "selector-range", "selector-zero", "ntables-1", "ntables-7",
                            "bitmap-empty", "origptr-eq", "origptr-big", "no-eob", "bad-block-crc", "bad-magic", "used-incomplete", "used-oversub",
                            "unused-incomplete", "unused-oversub", "missing-runlen", "oversize-for-level"};
  return d >= 0 && d < BlockSpec::NDEFECTS ? n[d] : "?";
}

// random complete code-length vector for n symbols (n >= 2), max length 20
static std::vector<uint8_t> random_code(Rng &rng, unsigned n, int deep) {
  std::vector<uint8_t> leaves = {1, 1};
  while (leaves.size() < n) {
    size_t i;
    if (deep && rng.below(4) != 0) {   // split the deepest splittable leaf
      i = 0; int best = -1;
      for (size_t k = 0; k < leaves.size(); k++) if (leaves[k] < 20 && (int)leaves[k] > best) { best = leaves[k]; i = k; }
      if (best < 0) break;
    } else {
      int tries = 0;
      do { i = rng.below(leaves.size()); } while (leaves[i] >= 20 && ++tries < 64);
      if (leaves[i] >= 20) { bool f = false; for (size_t k = 0; k < leaves.size(); k++) if (leaves[k] < 20) { i = k; f = true; break; } if (!f) break; }
    }
    uint8_t l = leaves[i] + 1;
    leaves[i] = l;
    leaves.push_back(l);
  }
  for (size_t i = leaves.size(); i > 1; i--) std::swap(leaves[i - 1], leaves[rng.below(i)]);
  return leaves;
}

struct Canon { std::vector<uint32_t> code; };
static Canon canon_codes(const std::vector<uint8_t> &len) {
  Canon c; c.code.assign(len.size(), 0);
  uint32_t code = 0;
  for (int l = 1; l <= 20; l++) {
    for (size_t i = 0; i < len.size(); i++) if (len[i] == l) c.code[i] = code++;
    code <<= 1;
  }
  return c;
}

static void emit_block(BitWriter &bw, const BlockSpec &spec, int level, Rng &rng, GenOut &go, int si, int bi_idx, uint32_t *blockcrc_out) {
  (void)level;
  Bytes plain = spec.plain;
  if (plain.empty()) plain = "x";
  std::vector<unsigned char> blk;
  rle1(plain, blk);
  if (spec.defect == BlockSpec::MISSING_RUNLEN) {
    // end the block with four equal bytes and no count: plaintext gains exactly those four bytes
    unsigned char c = blk.back() == 'q' ? 'r' : 'q';
    blk.insert(blk.end(), 4, c);
    plain.append(4, (char)c);
  }
  uint32_t crc = crc_of(plain);
  size_t n = blk.size();
  std::vector<unsigned char> work = blk;
  if (spec.randomised) {
    int togo = 0, tpos = 0;
    for (size_t i = 0; i < n; i++) {
      if (togo == 0) { togo = BZ2_rNums[tpos]; tpos = (tpos + 1) & 511; }
      togo--;
      if (togo == 1) work[i] ^= 1;
    }
  }
  std::vector<uint32_t> sa = sort_rotations(work);
  std::vector<unsigned char> L(n);
  uint32_t orig = 0;
  for (size_t i = 0; i < n; i++) { L[i] = work[(sa[i] + n - 1) % n]; if (sa[i] == 0) orig = (uint32_t)i; }
  // symbol map
  bool inuse[256] = {false};
  for (auto c : L) inuse[c] = true;
  for (int k = 0; k < spec.extra_inuse; k++) inuse[rng.below(256)] = true;
  unsigned char unseq2seq[256]; unsigned ninuse = 0;
  for (int i = 0; i < 256; i++) if (inuse[i]) unseq2seq[i] = (unsigned char)ninuse++;
  unsigned alpha = ninuse + 2, EOB = ninuse + 1;
  // MTF + zero-run coding
  std::vector<uint16_t> syms;
  {
    unsigned char mtf[256];
    for (unsigned i = 0; i < ninuse; i++) mtf[i] = (unsigned char)i;
    uint64_t zrun = 0;
    auto flush = [&]() { while (zrun) { if (zrun & 1) { syms.push_back(0); zrun = (zrun - 1) >> 1; } else { syms.push_back(1); zrun = (zrun - 2) >> 1; } } };
    for (size_t i = 0; i < n; i++) {
      unsigned char c = unseq2seq[L[i]];
      unsigned j = 0;
      while (mtf[j] != c) j++;
      if (j == 0) { zrun++; continue; }
      flush();
      memmove(mtf + 1, mtf, j);
      mtf[0] = c;
      syms.push_back((uint16_t)(j + 1));
    }
    flush();
  }
  if (spec.defect != BlockSpec::NO_EOB) syms.push_back((uint16_t)EOB);
  // tables
  int ntab = std::max(2, std::min(6, spec.ntables));
  std::vector<std::vector<uint8_t>> lens(ntab);
  for (int t = 0; t < ntab; t++) {
    lens[t] = random_code(rng, alpha, spec.deep);
  }
  if (spec.long_codes) {
    // every symbol that actually occurs gets a 20-bit code (a group of 50 then needs the full 1000 bits);
    // the short codes go to symbols that are in the alphabet but never occur
    std::vector<bool> used(alpha, false);
    unsigned u = 0;
    for (auto sy : syms) if (!used[sy]) { used[sy] = true; u++; }
    unsigned mp = 1; while ((1u << mp) < u) mp++;
    unsigned count20 = 1u << mp, tcomb = 20 - mp;
    if (tcomb + count20 <= alpha) {
      std::vector<uint8_t> depth;                     // leaves for the unused symbols
      for (unsigned d = 1; d <= tcomb; d++) depth.push_back((uint8_t)d);
      for (unsigned k = u; k < count20; k++) depth.push_back(20);
      while (depth.size() < alpha - u) {              // split some unused leaf that is not yet at depth 20
        size_t pick = depth.size();
        for (size_t tries = 0; tries < 8 && pick == depth.size(); tries++) { size_t c = rng.below(depth.size()); if (depth[c] < 20) pick = c; }
        if (pick == depth.size()) for (size_t c = 0; c < depth.size(); c++) if (depth[c] < 20) { pick = c; break; }
        if (pick == depth.size()) break;
        depth[pick]++; depth.push_back(depth[pick]);
      }
      if (depth.size() == alpha - u) {
        std::vector<uint8_t> l(alpha, 20);
        size_t di = 0;
        for (unsigned i = 0; i < alpha; i++) if (!used[i]) l[i] = depth[di++];
        for (int t = 0; t < ntab; t++) lens[t] = l;
      }
    }
  }
  unsigned ngroups = (unsigned)((syms.size() + 49) / 50);
  if (ngroups == 0) ngroups = 1;
  std::vector<uint8_t> sel(ngroups);
  int bad_tab = -1;
  bool used_def = spec.defect == BlockSpec::USED_INCOMPLETE || spec.defect == BlockSpec::USED_OVERSUB;
  bool unused_def = spec.defect == BlockSpec::UNUSED_INCOMPLETE || spec.defect == BlockSpec::UNUSED_OVERSUB;
  if (used_def || unused_def) bad_tab = (int)rng.below(ntab);
  for (unsigned g = 0; g < ngroups; g++) {
    int t;
    do t = (int)rng.below(ntab); while (unused_def && t == bad_tab);
    sel[g] = (uint8_t)t;
  }
  if (used_def) sel[rng.below(ngroups)] = (uint8_t)bad_tab;
  std::vector<Canon> codes(ntab);
  for (int t = 0; t < ntab; t++) codes[t] = canon_codes(lens[t]);
  if (bad_tab >= 0) {
    // break completeness after code assignment so that the coded bits still decode canonically where possible
    std::vector<uint8_t> &l = lens[bad_tab];
    bool incomplete = spec.defect == BlockSpec::USED_INCOMPLETE || spec.defect == BlockSpec::UNUSED_INCOMPLETE;
    // choose a symbol that is not coded with this table (or any for unused tables)
    std::vector<bool> coded(alpha, false);
    for (unsigned g = 0; g < ngroups; g++) if (sel[g] == bad_tab) for (size_t k = g * 50; k < std::min<size_t>(syms.size(), g * 50 + 50); k++) coded[syms[k]] = true;
    int victim = -1;
    // lengthening the symbol with the longest code keeps all other canonical codes unchanged
    int maxl = 0; for (unsigned i = 0; i < alpha; i++) if (l[i] >= maxl) { maxl = l[i]; }
    for (int i = (int)alpha - 1; i >= 0; i--) if (l[i] == maxl && !coded[i]) { victim = i; break; }
    if (victim < 0) victim = (int)alpha - 1;
    if (incomplete) { if (l[victim] < 20) l[victim]++; else { /* cannot lengthen: shorten nothing, drop completeness differently */ for (unsigned i = 0; i < alpha; i++) if (l[i] < 20) { l[i]++; break; } } }
    else { if (l[victim] > 1) l[victim]--; }
    codes[bad_tab] = canon_codes(l);
  }
  // ---- write
  go.block_bitpos.push_back(bw.pos);
  uint64_t magic = spec.defect == BlockSpec::BAD_MAGIC ? (0x314159265359ull ^ (1ull << rng.below(48))) : 0x314159265359ull;
  bw.put(magic >> 24, 24); bw.put(magic & 0xFFFFFF, 24);
  uint32_t stored_crc = spec.defect == BlockSpec::BAD_BLOCK_CRC ? crc ^ (1u << rng.below(32)) : crc;
  go.crc_fields.push_back({bw.pos, 0, si, bi_idx});
  bw.put(stored_crc, 32);
  *blockcrc_out = stored_crc;
  bw.put(spec.randomised ? 1 : 0, 1);
  uint32_t op = orig;
  if (spec.defect == BlockSpec::ORIGPTR_EQ) op = (uint32_t)n;
  if (spec.defect == BlockSpec::ORIGPTR_BIG) op = (uint32_t)std::min<uint64_t>(0xFFFFFF, n + 1 + rng.below(1000));
  bw.put(op, 24);
  if (spec.defect == BlockSpec::BITMAP_EMPTY) { bw.put(0, 16); }
  else {
    unsigned big = 0;
    for (int i = 0; i < 16; i++) for (int j = 0; j < 16; j++) if (inuse[i * 16 + j]) big |= 0x8000u >> i;
    bw.put(big, 16);
    for (int i = 0; i < 16; i++) if (big & (0x8000u >> i)) { unsigned sm = 0; for (int j = 0; j < 16; j++) if (inuse[i * 16 + j]) sm |= 0x8000u >> j; bw.put(sm, 16); }
  }
  int ntab_field = ntab;
  if (spec.defect == BlockSpec::NTABLES_1) ntab_field = rng.below(2) ? 1 : 0;
  if (spec.defect == BlockSpec::NTABLES_7) ntab_field = 7;
  bw.put(ntab_field, 3);
  unsigned nsel = ngroups + (unsigned)spec.nsel_surplus;
  if (nsel > 32767) nsel = 32767;
  if (spec.defect == BlockSpec::SEL_ZERO) nsel = 0;
  bw.put(nsel, 15);
  {
    uint8_t pos[6]; for (int v = 0; v < 6; v++) pos[v] = (uint8_t)v;
    unsigned bad_at = spec.defect == BlockSpec::SEL_RANGE ? (unsigned)rng.below(nsel ? nsel : 1) : ~0u;
    for (unsigned i = 0; i < nsel; i++) {
      uint8_t t = i < ngroups ? sel[i] : (uint8_t)rng.below(ntab);
      unsigned j = 0; while (pos[j] != t) j++;
      uint8_t tmp = pos[j]; for (unsigned k = j; k > 0; k--) pos[k] = pos[k - 1]; pos[0] = tmp;
      if (i == bad_at) j = ntab;      // unary value == table count
      for (unsigned k = 0; k < j; k++) bw.put(1, 1);
      bw.put(0, 1);
    }
  }
  for (int t = 0; t < ntab; t++) {
    const std::vector<uint8_t> &l = lens[t];
    int curr = l[0];
    if (spec.start_mode == 1) curr = 1 + (int)rng.below(20);
    bool bad_here = (spec.defect == BlockSpec::DELTA_HIGH || spec.defect == BlockSpec::DELTA_LOW || spec.defect == BlockSpec::DELTA_START0 || spec.defect == BlockSpec::DELTA_START21) && t == (int)(spec.defect_arg % ntab);
    unsigned bad_sym = bad_here ? (unsigned)rng.below(alpha) : ~0u;
    if (bad_here && spec.defect == BlockSpec::DELTA_START0) { curr = 0; }
    if (bad_here && spec.defect == BlockSpec::DELTA_START21) { curr = 21 + (int)rng.below(11); }
    bw.put(curr, 5);
    int zz = spec.zigzag;
    for (unsigned i = 0; i < alpha; i++) {
      int target = l[i];
      if (i == bad_sym && spec.defect == BlockSpec::DELTA_HIGH) {
        // climb to 20, step to 21 and come back, then go to the target
        while (curr < 20) { bw.put(2, 2); curr++; }
        bw.put(2, 2); bw.put(3, 2);        // 20 -> 21 -> 20
      }
      if (i == bad_sym && spec.defect == BlockSpec::DELTA_LOW) {
        while (curr > 1) { bw.put(3, 2); curr--; }
        bw.put(3, 2); bw.put(2, 2);        // 1 -> 0 -> 1
      }
      // legal detours
      while (zz > 0 && rng.below(alpha) < 8) {
        zz--;
        if (curr < 20 && (curr == 1 || rng.below(2))) { bw.put(2, 2); bw.put(3, 2); }
        else if (curr > 1) { bw.put(3, 2); bw.put(2, 2); }
      }
      while (curr < target) { bw.put(2, 2); curr++; }
      while (curr > target) { bw.put(3, 2); curr--; }
      bw.put(0, 1);
    }
  }
  for (size_t k = 0; k < syms.size(); k++) {
    int t = sel[k / 50];
    bw.put(codes[t].code[syms[k]], lens[t][syms[k]]);
  }
  go.plain += plain;
  if (spec.defect != BlockSpec::NONE) { if (!go.defects.empty()) go.defects += ","; go.defects += defect_name(spec.defect); }
}

GenOut genstream(const std::vector<StreamSpec> &streams, const Bytes &trailing, Rng &rng) {
  GenOut go;
  BitWriter bw;
  for (size_t s = 0; s < streams.size(); s++) {
    const StreamSpec &ss = streams[s];
    bw.put('B', 8); bw.put('Z', 8); bw.put('h', 8); bw.put('0' + ss.level, 8);
    uint32_t comb = 0;
    for (size_t b = 0; b < ss.blocks.size(); b++) {
      uint32_t bc = 0;
      emit_block(bw, ss.blocks[b], ss.level, rng, go, (int)s, (int)b, &bc);
      comb = ((comb << 1) | (comb >> 31)) ^ bc;
    }
    uint64_t eos = ss.bad_eos_magic ? (0x177245385090ull ^ (1ull << rng.below(48))) : 0x177245385090ull;
    bw.put(eos >> 24, 24); bw.put(eos & 0xFFFFFF, 24);
    go.crc_fields.push_back({bw.pos, 1, (int)s, -1});
    bw.put(ss.bad_stream_crc ? comb ^ (1u << rng.below(32)) : comb, 32);
    bw.align();
    if (ss.bad_stream_crc) go.defects += (go.defects.empty() ? "" : ",") + std::string("bad-stream-crc");
    if (ss.bad_eos_magic) go.defects += (go.defects.empty() ? "" : ",") + std::string("bad-eos-magic");
  }
  go.bytes = bw.b;
  go.bytes += trailing;
  return go;
}

Bytes random_block_plain(Rng &rng, size_t maxlen) {
  size_t n = 1 + rng.below(maxlen);
  if (rng.below(8) == 0) n = 1 + rng.below(8);
  Bytes p;
  int kind = (int)rng.below(7);
  unsigned alpha = kind == 0 ? 256 : 1 + (unsigned)rng.below(kind == 1 ? 2 : 12);
  unsigned char base = (unsigned char)rng.below(256);
  while (p.size() < n) {
    if (kind == 2 || kind == 3) {   // run structured around the 4/255/259 limits
      static const unsigned lens[] = {1, 2, 3, 4, 5, 6, 254, 255, 256, 258, 259, 260, 261, 263, 518, 519, 600};
      unsigned l = lens[rng.below(sizeof lens / sizeof *lens)];
      p.append(l, (char)(base + rng.below(alpha)));
    } else if (kind == 4) {         // periodic
      unsigned period = 1 + (unsigned)rng.below(5);
      Bytes u; for (unsigned i = 0; i < period; i++) u.push_back((char)(base + rng.below(alpha)));
      unsigned reps = 1 + (unsigned)rng.below(200);
      for (unsigned i = 0; i < reps; i++) p += u;
    } else p.push_back((char)(base + rng.below(alpha)));
  }
  if (p.size() > n) p.resize(n);
  return p;
}

Bytes random_trailing(Rng &rng) {
  Bytes t;
  switch (rng.below(12)) {
  case 0: t = "B"; break;
  case 1: t = "BZ"; break;
  case 2: t = "BZh"; break;
  case 3: t = "BZh0"; break;
  case 4: t = "BZh:"; t.append(rng.below(40), 'x'); break;
  case 5: t.assign(1 + rng.below(64), '\0'); break;
  case 6: { size_t n = 1 + rng.below(200); for (size_t i = 0; i < n; i++) t.push_back((char)rng.below(256)); if (t.size() >= 4 && t[0] == 'B' && t[1] == 'Z' && t[2] == 'h') t[0] = 'X'; break; }
  case 7: t = "BZh9"; break;                               // full header: must be rejected (truncated stream)
  case 8: t = "BZh5"; t.append(1 + rng.below(30), 'j'); break;   // full header followed by junk
  case 9: {   // garbage, then a complete valid stream (ignored as a whole)
    t = "xx";
    std::vector<StreamSpec> ss(1); ss[0].level = 1 + (int)rng.below(9); BlockSpec b; b.plain = random_block_plain(rng, 200); ss[0].blocks.push_back(b);
    t += genstream(ss, Bytes(), rng).bytes;
    break;
  }
  case 10: {
    if (rng.below(2)) { t = "bZh9"; t.append(rng.below(20), 'k'); break; }
    // a near-miss header (digit outside 1-9) followed by the body of a complete valid stream: ignored as a whole
    static const char nm[] = {'0', ':', ';', '<', '=', '>', '?', 'A', '/'};
    std::vector<StreamSpec> ss(1); ss[0].level = 9; BlockSpec b; b.plain = random_block_plain(rng, 200); ss[0].blocks.push_back(b);
    t = genstream(ss, Bytes(), rng).bytes;
    t[3] = nm[rng.below(sizeof nm)];
    break;
  }
  default: t.assign(1, (char)(rng.below(255) + 1 == 'B' ? 'C' : rng.below(255) + 1)); if (t[0] == 'B') t[0] = 'C'; break;
  }
  return t;
}

std::vector<StreamSpec> random_specs(Rng &rng, int max_streams, int max_blocks, size_t max_plain, int defect_p256) {
  int ns = 1 + (int)rng.below(max_streams);
  std::vector<StreamSpec> v(ns);
  bool want_defect = (int)rng.below(256) < defect_p256;
  int defect_stream = (int)rng.below(ns);
  for (int s = 0; s < ns; s++) {
    StreamSpec &ss = v[s];
    ss.level = 1 + (int)rng.below(9);
    int nb = (int)rng.below(max_blocks + 1);
    if (nb == 0 && rng.below(4) != 0) nb = 1;
    for (int b = 0; b < nb; b++) {
      BlockSpec bs;
      bs.plain = random_block_plain(rng, max_plain);
      bs.randomised = rng.below(5) == 0;
      bs.ntables = 2 + (int)rng.below(5);
      bs.extra_inuse = rng.below(3) == 0 ? (int)rng.below(40) : 0;
      bs.nsel_surplus = rng.below(6) == 0 ? (rng.below(8) == 0 ? 32767 : (int)rng.below(50)) : 0;
      bs.zigzag = rng.below(3) == 0 ? (int)rng.below(12) : 0;
      bs.start_mode = (int)rng.below(2);
      bs.deep = rng.below(4) == 0;
      if (rng.below(10) == 0) { bs.long_codes = 1; bs.extra_inuse = 30 + (int)rng.below(60); }
      ss.blocks.push_back(bs);
    }
    if (want_defect && s == defect_stream) {
      int which = (int)rng.below(BlockSpec::NDEFECTS + 2);
      if (which >= BlockSpec::NDEFECTS || ss.blocks.empty()) { if (which & 1) ss.bad_stream_crc = true; else ss.bad_eos_magic = true; }
      else if (which != BlockSpec::NONE) {
        BlockSpec &b = ss.blocks[rng.below(ss.blocks.size())];
        b.defect = which;
        b.defect_arg = (uint32_t)rng.next();
        if (which == BlockSpec::OVERSIZE_FOR_LEVEL) {
          // a block whose run-length-encoded size exceeds level*100000 by a little
          ss.level = 1;
          b.plain.clear();
          size_t target = 100000 + 1 + rng.below(3);
          // 259-byte runs encode to 5 bytes: need target bytes after RLE
          size_t runs = target / 5, restb = target % 5;
          for (size_t r = 0; r < runs; r++) b.plain.append(259, (char)('a' + (r & 1)));
          for (size_t r = 0; r < restb; r++) b.plain.push_back((char)('c' + (r % 2 ? 1 : 0) + 2 * (r & 1)));
          b.randomised = false; b.nsel_surplus = 0;
        }
      }
    }
  }
  return v;
}

// ------------------------------------------------------------------ C10 planting
static const uint64_t PATTERN = 0x314159265359ull;

// A block whose Huffman-coded data is given literally: both tables are flat 8-bit codes over
// 256 symbols (254 byte values in use), so the canonical code of symbol s is the byte s,
// 0xFF is EOB, 0x00/0x01 are RUNA/RUNB and every other byte is an MTF index.  *Any* byte
// string without 0xFF is therefore a legal symbol sequence, which lets us spell the 48-bit
// block-header pattern (or a whole inner block) inside coded data.
static void write_flat_block(BitWriter &bw, const Bytes &symbols, uint32_t crc, uint64_t *crcpos, uint32_t origptr = 0, bool randomised = false) {
  bw.put(PATTERN >> 24, 24); bw.put(PATTERN & 0xFFFFFF, 24);
  if (crcpos) *crcpos = bw.pos;
  bw.put(crc, 32);
  bw.put(randomised ? 1 : 0, 1);   // legacy "randomised" flag: the decoder flips bytes of the BWT output on a fixed schedule; any symbol string is legal, the CRC below is computed from the reference decoding
  bw.put(origptr, 24);     // primary index
  bw.put(0xFFFF, 16);
  for (int i = 0; i < 15; i++) bw.put(0xFFFF, 16);
  bw.put(0xFFFC, 16);      // 254 values in use (all but 0xFE, 0xFF)
  bw.put(2, 3);
  unsigned nsym = (unsigned)symbols.size() + 1;
  unsigned nsel = (nsym + 49) / 50;
  bw.put(nsel, 15);
  for (unsigned i = 0; i < nsel; i++) bw.put(0, 1);
  for (int t = 0; t < 2; t++) { bw.put(8, 5); for (int i = 0; i < 256; i++) bw.put(0, 1); }
  for (unsigned char c : symbols) bw.put(c, 8);
  bw.put(0xFF, 8);
}

// One stream holding one block with exactly nsyms non-run symbols (so nsyms decoded bytes before the final
// run-length decoding and nsyms+1 coded symbols): nsyms = 900000 at level 9 is the largest legal block and needs
// all 18001 coding groups; nsyms = level*100000+1 overflows the declared size by one byte.
GenOut gen_full_block(Rng &rng, size_t nsyms, int level, bool max_origptr, bool randomised) {
  Bytes symbols(nsyms, 0);
  for (size_t i = 0; i < nsyms; i++) symbols[i] = (char)(2 + rng.below(253));
  uint32_t op = max_origptr && nsyms ? (uint32_t)(nsyms - 1) : (uint32_t)rng.below(nsyms ? nsyms : 1);
  uint32_t crc = 0;
  {
    BitWriter t; t.put('B', 8); t.put('Z', 8); t.put('h', 8); t.put('0' + level, 8);
    write_flat_block(t, symbols, 0, nullptr, op, randomised);
    t.put(0x177245385090ull >> 24, 24); t.put(0x177245385090ull & 0xFFFFFF, 24); t.put(0, 32); t.align();
    DecResult d = refdec(t.b);
    if (!d.streams.empty() && !d.streams[0].blocks.empty()) crc = d.streams[0].blocks[0].crc_calc;
  }
  GenOut go;
  BitWriter bw; bw.put('B', 8); bw.put('Z', 8); bw.put('h', 8); bw.put('0' + level, 8);
  uint64_t cp;
  go.block_bitpos.push_back(bw.pos);
  write_flat_block(bw, symbols, crc, &cp, op, randomised);
  go.crc_fields.push_back({cp, 0, 0, 0});
  bw.put(0x177245385090ull >> 24, 24); bw.put(0x177245385090ull & 0xFFFFFF, 24);
  go.crc_fields.push_back({bw.pos, 1, 0, -1});
  bw.put(crc, 32);      // combined CRC of a single block is that block's CRC
  bw.align();
  go.bytes = bw.b;
  return go;
}

GenOut gen_planted(Rng &rng, int *kind_out) {
  // kind 0: pattern (+32 arbitrary bits) inside coded data      kind 1: complete decodable inner block(s) inside coded data
  // kind 2: pattern / complete inner blocks in trailing garbage  kind 3: kind 0/1 in a file that is invalid further on
  for (int attempt = 0; attempt < 50; attempt++) {
    int kind = (int)rng.below(4);
    int sub = kind == 3 ? (int)rng.below(2) : kind;
    Bytes symbols, trailing;
    auto filler = [&](size_t n) { for (size_t i = 0; i < n; i++) { unsigned char c; do c = (unsigned char)rng.below(256); while (c == 0xFF || c < 2); symbols.push_back((char)c); } };
    auto inner_blocks = [&](Bytes &dst, bool in_symbols) {
      std::vector<StreamSpec> in(1);
      in[0].level = 9;
      int nb = 1 + (int)rng.below(2);
      for (int b = 0; b < nb; b++) { BlockSpec bs; bs.plain = random_block_plain(rng, 120); bs.ntables = 2 + (int)rng.below(3); in[0].blocks.push_back(bs); }
      for (int tries = 0; tries < 40; tries++) {
        GenOut g = genstream(in, Bytes(), rng);
        Bytes body = g.bytes.substr(4);      // starts exactly at a block magic
        if (rng.below(2)) body.resize(body.size() - 10);   // drop the end-of-stream marker: candidate followed by whatever comes next
        else if (rng.below(3) == 0 && body.size() > 60) body.resize(body.size() - 10 - 1 - rng.below(24));   // cut inside the last block's data: its speculative decoding runs on into whatever follows and fails late
        if (in_symbols && body.find((char)0xFF) != Bytes::npos) continue;
        dst += body;
        return true;
      }
      return false;
    };
    if (sub == 0 || sub == 1) {
      int reps = 1 + (int)rng.below(3);
      bool ok = true;
      for (int r = 0; r < reps && ok; r++) {
        filler(rng.below(300));
        if (sub == 0) {
          for (int i = 5; i >= 0; i--) symbols.push_back((char)((PATTERN >> (8 * i)) & 0xFF));
          for (int i = 0; i < 4; i++) { unsigned char c; do c = (unsigned char)rng.below(256); while (c == 0xFF); symbols.push_back((char)c); }
        } else ok = inner_blocks(symbols, true);
      }
      if (!ok) continue;
      filler(rng.below(300));
    }
    if (kind == 2) {
      trailing.push_back((char)(1 + rng.below(200)));
      if (trailing[0] == 'B') trailing[0] = 'A';
      size_t pad = rng.below(40);
      for (size_t i = 0; i < pad; i++) trailing.push_back((char)rng.below(256));
      BitWriter tw;
      tw.put(0, (int)rng.below(8));
      if (rng.below(2)) {
        int reps = 1 + (int)rng.below(4);
        for (int r = 0; r < reps; r++) {
          tw.put(PATTERN >> 24, 24); tw.put(PATTERN & 0xFFFFFF, 24); tw.put((uint32_t)rng.next(), 32);
          int junk = (int)rng.below(300);
          for (int j = 0; j < junk; j++) tw.put(rng.below(256), 8);
        }
      } else {
        Bytes body;
        if (!inner_blocks(body, false)) continue;
        for (unsigned char c : body) tw.put(c, 8);
      }
      tw.align();
      trailing += tw.b;
      size_t tail = rng.below(30);
      for (size_t i = 0; i < tail; i++) trailing.push_back((char)rng.below(256));
    }
    // assemble: [normal blocks] [flat block] [normal blocks], possibly a second stream
    uint32_t flat_crc = 0;
    if (!symbols.empty()) {
      BitWriter t; t.put('B', 8); t.put('Z', 8); t.put('h', 8); t.put('9', 8);
      write_flat_block(t, symbols, 0, nullptr);
      t.put(0x177245385090ull >> 24, 24); t.put(0x177245385090ull & 0xFFFFFF, 24); t.put(0, 32); t.align();
      DecResult d = refdec(t.b);
      if (d.streams.empty() || d.streams[0].blocks.empty()) continue;
      if (!(d.verdict == V_INVALID && d.reason == "block CRC mismatch") && d.verdict != V_VALID) continue;   // e.g. four equal bytes at the end: redraw
      flat_crc = d.streams[0].blocks[0].crc_calc;
    }
    GenOut go;
    BitWriter bw;
    int nstreams = 1 + (int)rng.below(2);
    int flat_stream = (int)rng.below(nstreams);
    for (int s = 0; s < nstreams; s++) {
      int level = 1 + (int)rng.below(9);
      bw.put('B', 8); bw.put('Z', 8); bw.put('h', 8); bw.put('0' + level, 8);
      uint32_t comb = 0;
      int nb = (int)rng.below(3), bidx = 0;
      int flat_at = (int)rng.below(nb + 1);
      for (int b = 0; b <= nb; b++) {
        if (s == flat_stream && b == flat_at && !symbols.empty()) {
          uint64_t cp;
          go.block_bitpos.push_back(bw.pos);
          write_flat_block(bw, symbols, flat_crc, &cp);
          go.crc_fields.push_back({cp, 0, s, bidx++});
          comb = ((comb << 1) | (comb >> 31)) ^ flat_crc;
        }
        if (b == nb) break;
        BlockSpec bs; bs.plain = random_block_plain(rng, 400); bs.ntables = 2 + (int)rng.below(5);
        if (kind == 3 && s == nstreams - 1 && b == nb - 1) bs.defect = rng.below(2) ? BlockSpec::BAD_BLOCK_CRC : BlockSpec::ORIGPTR_EQ;
        uint32_t bc = 0;
        emit_block(bw, bs, level, rng, go, s, bidx++, &bc);
        comb = ((comb << 1) | (comb >> 31)) ^ bc;
      }
      bw.put(0x177245385090ull >> 24, 24); bw.put(0x177245385090ull & 0xFFFFFF, 24);
      go.crc_fields.push_back({bw.pos, 1, s, -1});
      bool badsc = kind == 3 && s == nstreams - 1 && nb == 0;
      bw.put(badsc ? comb ^ 0x400u : comb, 32);
      bw.align();
    }
    go.bytes = bw.b + trailing;
    if (kind == 3 && rng.below(3) == 0 && go.bytes.size() > 30) go.bytes.resize(go.bytes.size() - 1 - rng.below(20));   // truncated instead
    if (kind_out) *kind_out = kind;
    return go;
  }
  // fallback (practically unreachable): a plain valid file
  std::vector<StreamSpec> ss(1); BlockSpec b; b.plain = "fallback"; ss[0].blocks.push_back(b);
  if (kind_out) *kind_out = -1;
  return genstream(ss, Bytes(), rng);
}

// ------------------------------------------------------------------ C04 model
static void pack_piece(const unsigned char *p, size_t n, size_t base, size_t cap, std::vector<size_t> &ends) {
  size_t nblock = 0;      // bytes in the run-length-encoded block (count byte reserved with the 4th equal byte)
  int eq = 0; int last = -1;
  unsigned runlen = 0;    // >= 4 while in the count phase
  size_t i = 0;
  while (i < n) {
    unsigned char c = p[i];
    if (runlen >= 4) {
      if (c == last && runlen < 259) { runlen++; i++; if (runlen == 259) { runlen = 0; eq = 0; last = -1; } continue; }
      runlen = 0; eq = 0; last = -1;
    }
    size_t need = (c == last && eq == 3) ? 2 : 1;
    if (nblock + need > cap) {   // block is full: it ends before this byte
      ends.push_back(base + i);
      nblock = 0; eq = 0; last = -1; runlen = 0;
      continue;
    }
    nblock += need;
    if (c == last) { eq++; if (eq == 4) runlen = 4; } else { eq = 1; last = c; }
    i++;
  }
  if (n > 0) ends.push_back(base + n);
}

std::vector<size_t> pack_model(const Bytes &in, size_t cap, bool sequential, size_t chunk) {
  std::vector<size_t> ends;
  const unsigned char *p = (const unsigned char *)in.data();
  if (sequential) pack_piece(p, in.size(), 0, cap, ends);
  else for (size_t off = 0; off < in.size(); off += chunk) pack_piece(p + off, std::min(chunk, in.size() - off), off, cap, ends);
  return ends;
}

}  // namespace bz
