// Independent bzip2 reference decoder (refdec), strict inspector, libbz2 wrapper,
// stream generator with every degree of freedom exposed (genstream), and the
// greedy packing model for C04.  None of this shares code with lbzip2.
#pragma once
#include <cstdint>
#include <string>
#include <vector>
#include "sim.h"

namespace bz {
using sim::Bytes;
using sim::Rng;

uint32_t crc32_bz(const unsigned char *p, size_t n, uint32_t crc = 0xFFFFFFFFu);   // running value, finish with ~
inline uint32_t crc_of(const Bytes &b) { return ~crc32_bz((const unsigned char *)b.data(), b.size()); }

// ---------------------------------------------------------------- refdec
struct BlockInfo {
  uint64_t bitpos = 0;         // bit offset of the 48-bit block magic
  uint64_t crc_bitpos = 0;     // bit offset of the stored block CRC
  uint64_t end_bitpos = 0;     // first bit after the block
  uint32_t crc_stored = 0, crc_calc = 0;
  bool randomised = false;
  unsigned primary = 0;
  unsigned nblock = 0;         // run-length-encoded size
  unsigned ninuse = 0;
  unsigned ntables = 0, nselectors = 0, ngroups_used = 0;
  std::vector<std::vector<uint8_t>> lens;    // [table][symbol]
  std::vector<int> kraft;      // per table: -1 incomplete, 0 complete, +1 oversubscribed
  std::vector<bool> table_used;
  std::vector<std::vector<uint32_t>> freq;   // [table][symbol] symbols coded with it
  size_t out_off = 0, out_len = 0;   // decoded bytes of this block within the output
  bool zigzag = false;         // some delta path was not monotone
  unsigned maxlen = 0;
};
struct StreamInfo {
  uint64_t start_byte = 0;
  int level = 0;
  std::vector<BlockInfo> blocks;
  uint64_t crc_bitpos = 0;
  uint32_t crc_stored = 0, crc_calc = 0;
  uint64_t end_byte = 0;       // first byte after the stream (after padding)
};
enum { V_VALID = 0, V_INVALID = 1, V_EXCEPTION = 2, V_UNCERTAIN = 3 };   // UNCERTAIN: the rules in the property text do not settle it (skipped by the oracles)
struct DecResult {
  int verdict = V_INVALID;
  std::string reason;          // why invalid / which exception
  Bytes out;                   // decoded bytes (complete for VALID/EXCEPTION; prefix otherwise)
  std::vector<StreamInfo> streams;
  size_t trailing = 0;         // ignored trailing bytes
  bool has_spurious_magic = false;
};
DecResult refdec(const Bytes &in);

// strict encoder-output rules (C02); returns "" when all hold
std::string inspect(const DecResult &d, int level);

// libbz2, driven the way bzip2's own front end does (multi-stream, trailing garbage)
struct LibResult { bool ok = false; int err = 0; Bytes out; size_t consumed = 0; bool trailing_ignored = false; };
LibResult libbz2_decode(const Bytes &in);
Bytes libbz2_encode(const Bytes &in, int level);

// ---------------------------------------------------------------- genstream
struct BlockSpec {
  Bytes plain;                 // what the block decodes to
  bool randomised = false;
  int ntables = 2;
  int extra_inuse = 0;         // additional byte values marked in use although absent
  int nsel_surplus = 0;        // selectors beyond those needed
  int zigzag = 0;              // number of legal +1-1 detours in delta paths per table (approx)
  int start_mode = 0;          // 0: start length = first length; 1: random legal start
  int deep = 0;                // bias towards long codes (20 bits)
  int long_codes = 0;          // all occurring symbols get 20-bit codes (needs spare alphabet: set extra_inuse)
  // defects (at most one is normally set)
  enum Defect { NONE = 0, DELTA_HIGH, DELTA_LOW, DELTA_START0, DELTA_START21, SEL_RANGE, SEL_ZERO, NTABLES_1, NTABLES_7, BITMAP_EMPTY,
                ORIGPTR_EQ, ORIGPTR_BIG, NO_EOB, BAD_BLOCK_CRC, BAD_MAGIC, USED_INCOMPLETE, USED_OVERSUB, UNUSED_INCOMPLETE, UNUSED_OVERSUB,
                MISSING_RUNLEN, OVERSIZE_FOR_LEVEL, NDEFECTS };
  int defect = NONE;
  uint32_t defect_arg = 0;
};
struct StreamSpec {
  int level = 9;
  std::vector<BlockSpec> blocks;
  bool bad_stream_crc = false;
  bool bad_eos_magic = false;
};
struct Field { uint64_t bitpos; int kind; int stream, block; };   // kind 0 = block CRC, 1 = stream CRC
struct GenOut {
  Bytes bytes;
  Bytes plain;                 // concatenated plaintext of all blocks
  std::vector<Field> crc_fields;
  std::vector<uint64_t> block_bitpos;
  std::string defects;         // names of planted defects
};
const char *defect_name(int d);
GenOut genstream(const std::vector<StreamSpec> &streams, const Bytes &trailing, Rng &rng);

// random valid (or single-defect) multi-stream file; defect_prob in 1/256
std::vector<StreamSpec> random_specs(Rng &rng, int max_streams, int max_blocks, size_t max_plain, int defect_p256);
Bytes random_block_plain(Rng &rng, size_t maxlen);
Bytes random_trailing(Rng &rng);

// C10: a stream whose data / trailing bytes contain planted 48-bit block-header patterns
GenOut gen_planted(Rng &rng, int *kind_out);
// one block with exactly nsyms non-run symbols (flat 8-bit tables); see bz.cc
GenOut gen_full_block(Rng &rng, size_t nsyms, int level, bool max_origptr, bool randomised = false);

// ---------------------------------------------------------------- C04 model
// Offsets (into input) at which blocks end, for capacity cap bytes after RLE.
std::vector<size_t> pack_model(const Bytes &in, size_t cap, bool sequential, size_t chunk);
size_t rle_len(const unsigned char *p, size_t n);   // length after bzip2's initial RLE

}  // namespace bz
