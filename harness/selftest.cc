// Self-tests of the machinery itself (not property checks): determinism, refdec vs libbz2.
#include "selftest.h"
#include <cstdio>
#include <cstring>
#include <sys/wait.h>
#include <unistd.h>
#include "common.h"
namespace selftest {
using namespace core;

// refdec against libbz2 on generated streams: bytes must agree whenever both accept;
// acceptance may differ only in the documented ways.
static int oracle(uint64_t seed, int n) {
  int bad = 0, valid = 0, invalid = 0, exc = 0, lib_only = 0;
  for (int i = 0; i < n; i++) {
    Rng rng(case_seed(seed, i));
    Bytes z;
    std::string desc;
    int k = (int)rng.below(5);
    if (k == 0) { std::string d; z = props::lib_multistream(rng, gen::input(rng, 1, 300000, &d), 1 + (int)rng.below(3)); desc = "lib " + d; }
    else if (k == 4) { int kind; z = bz::gen_planted(rng, &kind).bytes; desc = "planted"; }
    else {
      auto specs = bz::random_specs(rng, 3, 5, 3000, k == 1 ? 0 : 200);
      Bytes tr; if (rng.below(3) == 0) tr = bz::random_trailing(rng);
      bz::GenOut g = bz::genstream(specs, tr, rng);
      z = g.bytes; desc = "gen " + g.defects;
      if (k == 1) {
        bz::DecResult d = bz::refdec(z);
        if (d.verdict != bz::V_VALID && tr.empty()) { printf("generator/refdec disagreement on a defect-free stream (case %d): %s\n", i, d.reason.c_str()); bad++; }
        else if (d.verdict == bz::V_VALID && d.out != g.plain) { printf("refdec output differs from the generator's plaintext (case %d)\n", i); bad++; }
      }
      if (k == 3 && z.size() > 4) z.resize(rng.below(z.size()));
    }
    bz::DecResult d = bz::refdec(z);
    bz::LibResult l = bz::libbz2_decode(z);
    if (d.verdict == bz::V_VALID) valid++; else if (d.verdict == bz::V_INVALID) invalid++; else exc++;
    if (d.verdict == bz::V_VALID) {
      if (!l.ok) {
        // libbz2 front-end rule differs only for trailing data that starts with a partial magic
        bool partial = d.trailing > 0;
        if (!partial) { printf("refdec accepts, libbz2 rejects (%d) case %d: %s\n", l.err, i, desc.c_str()); bad++; }
      } else if (l.out != d.out) { printf("both accept but bytes differ, case %d: %s\n", i, desc.c_str()); bad++; }
    } else if (d.verdict == bz::V_EXCEPTION) {
      if (l.ok && l.out != d.out) { printf("documented exception: bytes differ from libbz2, case %d (%s)\n", i, d.reason.c_str()); bad++; }
    } else if (l.ok) {
      lib_only++;
      // acceptable reasons for libbz2 being laxer
      if (d.reason != "truncated" && d.reason.find("selector") == std::string::npos) { printf("note: libbz2 accepts what refdec rejects (%s), case %d: %s\n", d.reason.c_str(), i, desc.c_str()); }
    }
  }
  printf("selftest-oracle: %d cases, refdec valid=%d invalid=%d exception=%d, libbz2-only-accepts=%d, disagreements=%d\n", n, valid, invalid, exc, lib_only, bad);
  return bad ? 1 : 0;
}

// determinism: every case of every driver evaluated twice in this process and once in a child process
static int determinism(uint64_t seed, int per_driver) {
  int bad = 0, total = 0;
  for (Driver *d : all_drivers()) {
    if (strcmp(d->variants(0), "plain") != 0 && strcmp(sim::variant(), "plain") == 0 && false) continue;
    for (int i = 0; i < per_driver; i++) {
      uint64_t cs = case_seed(seed ^ 0xD37, i);
      Case c = d->gen(cs, 0); c.seed = cs;
      Ctx a, b;
      Verdict va = d->eval(c, a), vb = d->eval(c, b);
      total++;
      if (a.hash != b.hash || va.cls != vb.cls) { printf("NONDETERMINISTIC %s case %d: %016llx vs %016llx (%s / %s)\n", d->prop(), i, (unsigned long long)a.hash, (unsigned long long)b.hash, va.cls.c_str(), vb.cls.c_str()); bad++; continue; }
      // text round trip + child process
      std::string text = case_to_text(c, va, a.hash);
      Case c2; Verdict v2; uint64_t h2 = 0;
      case_from_text(text, &c2, &v2, &h2);
      int pfd[2]; if (pipe(pfd)) return 2;
      pid_t pid = fork();
      if (pid == 0) {
        Ctx cc; Verdict vc = d->eval(c2, cc);
        uint64_t h = cc.hash ^ (vc.cls == va.cls ? 0 : 1);
        if (write(pfd[1], &h, sizeof h) < 0) {}
        _exit(0);
      }
      close(pfd[1]);
      uint64_t h = 0; if (read(pfd[0], &h, sizeof h) != (ssize_t)sizeof h) h = 1;
      close(pfd[0]); int st; waitpid(pid, &st, 0);
      if (h != a.hash) { printf("NONDETERMINISTIC across processes / serialisation: %s case %d\n", d->prop(), i); bad++; }
    }
  }
  printf("selftest-determinism (%s): %d cases x 3 evaluations, divergences=%d\n", sim::variant(), total, bad);
  return bad ? 2 : 0;
}

int run(const std::string &name, int argc, char **argv, uint64_t seed, int jobs) {
  (void)jobs;
  int n = argc >= 1 ? atoi(argv[0]) : 0;
  if (name == "oracle") return oracle(seed, n ? n : 3000);
  if (name == "determinism") return determinism(seed, n ? n : 40);
  fprintf(stderr, "unknown selftest %s\n", name.c_str());
  return 2;
}
}  // namespace selftest
