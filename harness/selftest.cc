// Self-tests of the machinery itself (not property checks): determinism, refdec vs libbz2.
#include "selftest.h"
#include <sys/sysmacros.h>
#include <cstdio>
#include <cstring>
#include <sys/wait.h>
#include <unistd.h>
#include "common.h"
namespace selftest {
using namespace core;

// refdec against libbz2 on generated streams: bytes must agree whenever both accept;
// acceptance may differ only in the documented ways.
static int oracle(uint64_t seed, int n) {
  int bad = 0, valid = 0, invalid = 0, exc = 0, lib_only = 0;
  for (int i = 0; i < n; i++) {
    Rng rng(case_seed(seed, i));
    Bytes z;
    std::string desc;
    int k = (int)rng.below(5);
    if (k == 0) { std::string d; z = props::lib_multistream(rng, gen::input(rng, 1, 300000, &d), 1 + (int)rng.below(3)); desc = "lib " + d; }
    else if (k == 4) { int kind; z = bz::gen_planted(rng, &kind).bytes; desc = "planted"; }
    else {
      auto specs = bz::random_specs(rng, 3, 5, 3000, k == 1 ? 0 : 200);
      Bytes tr; if (rng.below(3) == 0) tr = bz::random_trailing(rng);
      bz::GenOut g = bz::genstream(specs, tr, rng);
      z = g.bytes; desc = "gen " + g.defects;
      if (k == 1) {
        bz::DecResult d = bz::refdec(z);
        if (d.verdict != bz::V_VALID && tr.empty()) { printf("generator/refdec disagreement on a defect-free stream (case %d): %s\n", i, d.reason.c_str()); bad++; }
        else if (d.verdict == bz::V_VALID && d.out != g.plain) { printf("refdec output differs from the generator's plaintext (case %d)\n", i); bad++; }
      }
      if (k == 3 && z.size() > 4) z.resize(rng.below(z.size()));
    }
    bz::DecResult d = bz::refdec(z);
    bz::LibResult l = bz::libbz2_decode(z);
    if (d.verdict == bz::V_VALID) valid++; else if (d.verdict == bz::V_INVALID) invalid++; else exc++;
    if (d.verdict == bz::V_VALID) {
      if (!l.ok) {
        // libbz2 front-end rule differs only for trailing data that starts with a partial magic
        bool partial = d.trailing > 0;
        if (!partial) { printf("refdec accepts, libbz2 rejects (%d) case %d: %s\n", l.err, i, desc.c_str()); bad++; }
      } else if (l.out != d.out) { printf("both accept but bytes differ, case %d: %s\n", i, desc.c_str()); bad++; }
    } else if (d.verdict == bz::V_EXCEPTION) {
      if (l.ok && l.out != d.out) { printf("documented exception: bytes differ from libbz2, case %d (%s)\n", i, d.reason.c_str()); bad++; }
    } else if (l.ok) {
      lib_only++;
      // acceptable reasons for libbz2 being laxer
      if (d.reason != "truncated" && d.reason.find("selector") == std::string::npos) { printf("note: libbz2 accepts what refdec rejects (%s), case %d: %s\n", d.reason.c_str(), i, desc.c_str()); }
    }
  }
  printf("selftest-oracle: %d cases, refdec valid=%d invalid=%d exception=%d, libbz2-only-accepts=%d, disagreements=%d\n", n, valid, invalid, exc, lib_only, bad);
  return bad ? 1 : 0;
}

// determinism: every case of every driver evaluated twice in this process and once in a child process
static int determinism(uint64_t seed, int per_driver) {
  int bad = 0, total = 0;
  for (Driver *d : all_drivers()) {
    // in a non-plain build only the drivers that use that build are exercised
    if (strcmp(sim::variant(), "plain") != 0 && !strstr(d->variants(0), sim::variant())) continue;
    for (int i = 0; i < per_driver; i++) {
      uint64_t cs = case_seed(seed ^ 0xD37, i);
      Case c = d->gen(cs, 0); c.seed = cs;
      Ctx a, b;
      Verdict va = d->eval(c, a), vb = d->eval(c, b);
      total++;
      if (a.hash != b.hash || va.cls != vb.cls) { printf("NONDETERMINISTIC %s case %d: %016llx vs %016llx (%s / %s)\n", d->prop(), i, (unsigned long long)a.hash, (unsigned long long)b.hash, va.cls.c_str(), vb.cls.c_str()); bad++; continue; }
      // text round trip + child process
      std::string text = case_to_text(c, va, a.hash);
      Case c2; Verdict v2; uint64_t h2 = 0;
      case_from_text(text, &c2, &v2, &h2);
      int pfd[2]; if (pipe(pfd)) return 2;
      pid_t pid = fork();
      if (pid == 0) {
        Ctx cc; Verdict vc = d->eval(c2, cc);
        uint64_t h = cc.hash ^ (vc.cls == va.cls ? 0 : 1);
        if (write(pfd[1], &h, sizeof h) < 0) {}
        _exit(0);
      }
      close(pfd[1]);
      uint64_t h = 0; if (read(pfd[0], &h, sizeof h) != (ssize_t)sizeof h) h = 1;
      close(pfd[0]); int st; waitpid(pid, &st, 0);
      if (h != a.hash) { printf("NONDETERMINISTIC across processes / serialisation: %s case %d\n", d->prop(), i); bad++; }
    }
  }
  printf("selftest-determinism (%s): %d cases x 3 evaluations, divergences=%d\n", sim::variant(), total, bad);
  return bad ? 2 : 0;
}

int run_fidelity(uint64_t seed, int n);
int run(const std::string &name, int argc, char **argv, uint64_t seed, int jobs) {
  (void)jobs;
  int n = argc >= 1 ? atoi(argv[0]) : 0;
  if (name == "oracle") return oracle(seed, n ? n : 3000);
  if (name == "determinism") return determinism(seed, n ? n : 40);
  if (name == "fidelity") return run_fidelity(seed, n ? n : 300);
  fprintf(stderr, "unknown selftest %s\n", name.c_str());
  return 2;
}
}  // namespace selftest

// ===================================================================== fidelity of the kernel stub
// The real /repo binary (guard off) is run on the real kernel for the subset of plans the OS can
// realise without fault injection, and compared with the simulated run of the same plan.
#include <dirent.h>
#include <fcntl.h>
#include <signal.h>
#include <sys/stat.h>
#include <sys/time.h>
#include <sys/types.h>
namespace selftest {

static std::string g_real;
static bool build_real() {
  mkdir("build", 0755); mkdir("build/real", 0755);
  g_real = "build/real/lbzip2";
  std::string cmd = "gcc -O2 -DNDEBUG -w -D_XOPEN_SOURCE=700 -D_FILE_OFFSET_BITS=64 -DPACKAGE_NAME='\"lbzip2\"' -DPACKAGE_VERSION='\"devel\"' /repo/src/*.c -o build/real/lbzip2 -lpthread 2>&1";
  if (const char *r = getenv("VERIF_REPO")) { cmd = std::string("gcc -O2 -DNDEBUG -w -D_XOPEN_SOURCE=700 -D_FILE_OFFSET_BITS=64 -DPACKAGE_NAME='\"lbzip2\"' -DPACKAGE_VERSION='\"devel\"' ") + r + "/src/*.c -o build/real/lbzip2 -lpthread 2>&1"; }
  return system(cmd.c_str()) == 0;
}
struct RealResult { int kind, code; Bytes out, err; std::map<std::string, std::string> listing; };

static std::string rm_rf(const std::string &d) { return "rm -rf '" + d + "'"; }
static Bytes slurp(const std::string &p) { Bytes b; FILE *f = fopen(p.c_str(), "rb"); if (!f) return b; char buf[65536]; size_t n; while ((n = fread(buf, 1, sizeof buf, f)) > 0) b.append(buf, n); fclose(f); return b; }

static std::string describe_node(int type, const Bytes &data, unsigned mode, int64_t ms, int64_t mn, bool with_meta) {
  char b[200];
  bool has_data = type == sim::T_REG || type == sim::T_LNK;     // directories, named pipes and devices have no content to compare
  snprintf(b, sizeof b, "type=%d size=%zu hash=%016llx", type, has_data ? data.size() : (size_t)0, (unsigned long long)(has_data ? sim::hash_bytes(data.data(), data.size()) : 0));
  std::string s = b;
  if (with_meta) { snprintf(b, sizeof b, " mode=%o mtime=%lld.%09lld", mode & 0777, (long long)ms, (long long)mn); s += b; }
  return s;
}

static RealResult run_real(const std::vector<std::string> &argv, const std::vector<FileSpec> &files, const Bytes &in, bool ign_pipe, int64_t close_after, const std::string &dir) {
  RealResult R; R.kind = -1; R.code = 0;
  if (system((rm_rf(dir) + " && mkdir -p '" + dir + "'").c_str())) return R;
  for (auto &f : files) {
    std::string p = dir + "/" + f.name;
    if (f.type == sim::T_DIR) mkdir(p.c_str(), 0755);
    else if (f.type == sim::T_LNK) { if (symlink(f.data.c_str(), p.c_str())) {} }
    else if (f.type == sim::T_FIFO) { if (mkfifo(p.c_str(), f.mode & 0777)) {} }
    else if (f.type == sim::T_CHR) { if (mknod(p.c_str(), S_IFCHR | (f.mode & 0777), makedev(1, 3))) { R.kind = -2; return R; } }   // /dev/null's numbers; needs root
    else {
      FILE *o = fopen(p.c_str(), "wb"); if (!o) continue; fwrite(f.data.data(), 1, f.data.size(), o); fclose(o);
      chmod(p.c_str(), f.mode & 07777);
      struct timespec ts[2] = {{(time_t)f.atime_s, (long)f.atime_ns}, {(time_t)f.mtime_s, (long)f.mtime_ns}};
      utimensat(AT_FDCWD, p.c_str(), ts, 0);
      for (unsigned k = 0; k < f.nlink_extra; k++) { if (link(p.c_str(), (p + ".lnk" + std::to_string(k)).c_str())) {} }
    }
  }
  std::string inp = dir + "/.stdin", outp = dir + "/.stdout", errp = dir + "/.stderr";
  { FILE *o = fopen(inp.c_str(), "wb"); fwrite(in.data(), 1, in.size(), o); fclose(o); }
  int pfd[2] = {-1, -1};
  if (close_after >= 0 && pipe(pfd)) return R;
  char cwd[4096]; if (!getcwd(cwd, sizeof cwd)) return R;
  std::string exe = std::string(cwd) + "/" + g_real;
  pid_t pid = fork();
  if (pid == 0) {
    if (chdir(dir.c_str())) _exit(125);
    int fi = open(".stdin", O_RDONLY); dup2(fi, 0);
    if (close_after >= 0) { dup2(pfd[1], 1); close(pfd[0]); close(pfd[1]); } else { int fo = open(".stdout", O_WRONLY | O_CREAT | O_TRUNC, 0600); dup2(fo, 1); }
    int fe = open(".stderr", O_WRONLY | O_CREAT | O_TRUNC, 0600); dup2(fe, 2);
    signal(SIGPIPE, ign_pipe ? SIG_IGN : SIG_DFL);
    std::vector<char *> av; av.push_back((char *)"lbzip2");
    for (auto &a : argv) av.push_back((char *)a.c_str());
    av.push_back(nullptr);
    execv(exe.c_str(), av.data());
    _exit(126);
  }
  if (close_after >= 0) {
    close(pfd[1]);
    char buf[4096]; int64_t got = 0;
    while (got < close_after) { ssize_t n = read(pfd[0], buf, (size_t)std::min<int64_t>(sizeof buf, close_after - got)); if (n <= 0) break; R.out.append(buf, n); got += n; }
    close(pfd[0]);
  }
  int st = 0; waitpid(pid, &st, 0);
  if (WIFEXITED(st)) { R.kind = sim::X_EXIT; R.code = WEXITSTATUS(st); } else { R.kind = sim::X_SIGNAL; R.code = WTERMSIG(st); }
  if (close_after < 0) R.out = slurp(outp);
  R.err = slurp(errp);
  DIR *d = opendir(dir.c_str());
  if (d) {
    while (struct dirent *e = readdir(d)) {
      std::string n = e->d_name;
      if (n == "." || n == ".." || n == ".stdin" || n == ".stdout" || n == ".stderr") continue;
      struct stat sb; std::string p = dir + "/" + n;
      if (lstat(p.c_str(), &sb)) continue;
      int type = S_ISDIR(sb.st_mode) ? sim::T_DIR : S_ISLNK(sb.st_mode) ? sim::T_LNK : S_ISFIFO(sb.st_mode) ? sim::T_FIFO : S_ISCHR(sb.st_mode) ? sim::T_CHR : sim::T_REG;
      Bytes data; if (type == sim::T_REG) data = slurp(p); else if (type == sim::T_LNK) { char b[4096]; ssize_t l = readlink(p.c_str(), b, sizeof b); data.assign(b, l > 0 ? l : 0); }
      R.listing[n] = describe_node(type, data, sb.st_mode, sb.st_mtim.tv_sec, sb.st_mtim.tv_nsec, type == sim::T_REG);
    }
    closedir(d);
  }
  if (system(rm_rf(dir).c_str())) {}
  return R;
}

static int fidelity(uint64_t seed, int n) {
  if (!build_real()) { printf("selftest-fidelity: cannot build the real binary\n"); return 2; }
  int bad = 0, compared = 0, skipped = 0;
  char tmpl[] = "/var/tmp/lbzsim-fid-XXXXXX";
  if (!mkdtemp(tmpl)) return 2;
  std::string base = tmpl;
  // (A) FILE operand scenarios from the C17 and C18 generators
  for (const char *prop : {"C17", "C18"}) {
    Driver *d = find_driver(prop);
    for (int i = 0; i < n; i++) {
      Case c = d->gen(case_seed(seed ^ 0xF1DE, i), 0);
      bool skip = false;
      for (auto &f : c.files) if (f.noread) skip = true;      // we run as root: EACCES cannot be produced on the real file system
      for (auto &f : c.files) if (f.name.empty() || f.name[0] == '.') skip = true;
      if (!c.runs.empty() && !c.runs[0].faults.empty()) skip = true;      // injected faults (failing stderr) cannot be produced on the real kernel
      if (skip) { skipped++; continue; }
      RunCfg r = c.runs[0];
      Ctx ctx;
      sim::Result s = exec(r, Bytes(), c.files, ctx);
      RealResult real = run_real(r.argv, c.files, Bytes(), false, -1, base + "/w");
      if (real.kind == -2) { skipped++; continue; }      // could not create a device node
      compared++;
      std::string why;
      if (s.kind != real.kind || s.code != real.code) why = "status: sim " + props::cls_of_exit(s) + " real kind=" + std::to_string(real.kind) + " code=" + std::to_string(real.code);
      else if (s.err.empty() != real.err.empty()) why = "stderr emptiness differs: sim \"" + s.err.substr(0, 150) + "\" real \"" + real.err.substr(0, 150) + "\"";
      else if (s.out != real.out && s.kind == sim::X_EXIT && (s.code == 0 || s.code == 4)) why = "stdout differs";     // what a failing run had already written is timing dependent (DESIGN C09)
      else {
        std::map<std::string, std::string> sl;
        for (auto &kv : s.world.dir) { const sim::Inode &in = s.world.inodes[kv.second]; sl[kv.first] = describe_node(in.type, in.data, in.mode, in.mtime_s, in.mtime_ns, in.type == sim::T_REG); }
        if (sl != real.listing) {
          why = "directory listing differs:";
          for (auto &kv : sl) if (!real.listing.count(kv.first) || real.listing[kv.first] != kv.second) why += "\n    sim  " + kv.first + " " + kv.second;
          for (auto &kv : real.listing) if (!sl.count(kv.first) || sl[kv.first] != kv.second) why += "\n    real " + kv.first + " " + kv.second;
        }
      }
      if (!why.empty()) { bad++; printf("FIDELITY MISMATCH %s case %d (%s | %s): %s\n", prop, i, c.data_desc.c_str(), r.brief().c_str(), why.c_str()); if (bad > 10) break; }
    }
  }
  // (B) filters: healthy, and with the stdout reader going away early (SIGPIPE default / ignored)
  for (int i = 0; i < n / 2; i++) {
    Rng rng(case_seed(seed ^ 0xF117E5, i));
    int mode = (int)rng.below(3);
    Bytes plain = gen::random_bytes(rng, 200000 + rng.below(400000), mode == 2 ? 256 : 4), in;
    RunCfg r;
    if (mode == 0) { r.argv = {"-n", "2", "-1"}; in = plain; }
    else if (mode == 1) { r.argv = {"-n", "2", "-d"}; in = bz::libbz2_encode(plain, 1); }
    else { r.argv = {"-n", "2", "-cdf"}; in = plain; if (in[0] == 'B') in[0] = 'b'; }
    r.sched = random_sched(rng);
    bool ign = rng.below(2);
    int64_t cut = rng.below(3) == 0 ? -1 : (int64_t)rng.below(3000);
    r.ign_pipe = ign; r.out_close_after = cut;
    Ctx ctx;
    sim::Result s = exec(r, in, {}, ctx);
    RealResult real = run_real(r.argv, {}, in, ign, cut, base + "/w");
    compared++;
    std::string why;
    if (s.kind != real.kind || s.code != real.code) why = "status: sim " + props::cls_of_exit(s) + " real kind=" + std::to_string(real.kind) + " code=" + std::to_string(real.code);
    else if (cut < 0 && s.out != real.out) why = "stdout differs";
    else if (s.err.empty() != real.err.empty()) why = "stderr emptiness differs: sim \"" + s.err.substr(0, 100) + "\" real \"" + real.err.substr(0, 100) + "\"";
    if (!why.empty()) { bad++; printf("FIDELITY MISMATCH filter case %d (%s, reader closes after %lld, SIGPIPE %s): %s\n", i, r.brief().c_str(), (long long)cut, ign ? "ignored" : "default", why.c_str()); }
  }
  // (C) order in which Linux runs the handlers of simultaneously pending signals (the simulator assumes: highest number first)
  {
    static volatile int order[8], no;
    struct sigaction sa; memset(&sa, 0, sizeof sa);
    sa.sa_handler = [](int s) { if (no < 8) order[no++] = s; };
    sigset_t set, old; sigemptyset(&set);
    for (int s : {SIGINT, SIGUSR1, SIGUSR2, SIGTERM}) { sigaction(s, &sa, nullptr); sigaddset(&set, s); }
    sigprocmask(SIG_BLOCK, &set, &old);
    for (int s : {SIGUSR2, SIGINT, SIGTERM, SIGUSR1}) kill(getpid(), s);
    sigprocmask(SIG_SETMASK, &old, nullptr);
    bool ok = no == 4 && order[0] == SIGTERM && order[1] == SIGUSR2 && order[2] == SIGUSR1 && order[3] == SIGINT;
    compared++;
    if (!ok) { bad++; printf("FIDELITY MISMATCH: handler order of simultaneously pending signals is %d %d %d %d, the simulator assumes %d %d %d %d\n", order[0], order[1], order[2], order[3], SIGTERM, SIGUSR2, SIGUSR1, SIGINT); }
    for (int s : {SIGINT, SIGUSR1, SIGUSR2, SIGTERM}) signal(s, SIG_DFL);
  }
  if (system(rm_rf(base).c_str())) {}
  printf("selftest-fidelity: %d scenarios compared with the real binary on the real kernel (%d skipped: unreadable files need a non-root user, injected faults need the simulator), mismatches=%d\n", compared, skipped, bad);
  return bad ? 1 : 0;
}
int run_fidelity(uint64_t seed, int n) { return fidelity(seed, n); }
}  // namespace selftest
