#include "gen.h"
#include <algorithm>
namespace gen {

Bytes tiny(Rng &rng) {
  size_t n = rng.below(9);
  Bytes b;
  unsigned char c = (unsigned char)rng.below(256);
  for (size_t i = 0; i < n; i++) b.push_back((char)(rng.below(3) ? c : (unsigned char)rng.below(256)));
  return b;
}
Bytes random_bytes(Rng &rng, size_t n, unsigned alpha) {
  Bytes b(n, 0);
  unsigned char base = (unsigned char)rng.below(256);
  for (size_t i = 0; i < n; i++) b[i] = (char)(base + rng.below(alpha));
  return b;
}
Bytes runs_around_limits(Rng &rng, size_t n, unsigned alpha) {
  static const unsigned lens[] = {1, 1, 2, 3, 3, 4, 4, 5, 6, 7, 8, 100, 254, 255, 256, 257, 258, 259, 259, 260, 261, 262, 263, 264, 517, 518, 519, 520, 600, 777, 1036, 5000};
  Bytes b;
  unsigned char base = (unsigned char)rng.below(256);
  bool alternate = rng.below(2);
  unsigned k = 0;
  while (b.size() < n) {
    unsigned l = lens[rng.below(sizeof lens / sizeof *lens)];
    unsigned char c = alternate ? (unsigned char)(base + (k++ & 1)) : (unsigned char)(base + rng.below(alpha));
    b.append(l, (char)c);
  }
  b.resize(n);
  return b;
}
Bytes markov_text(Rng &rng, size_t n) {
  static const char *words[] = {"the", "block", "sorting", "compressor", "scheduler", "thread", " ", " ", "\n", "and", "of", "lbzip2", "0123456789", "aaaa", "queue", "ing", "tion", ", ", ". "};
  Bytes b;
  while (b.size() < n) { b += words[rng.below(sizeof words / sizeof *words)]; if (rng.below(4) == 0) b.push_back((char)('a' + rng.below(26))); }
  b.resize(n);
  return b;
}
Bytes fibonacci(Rng &rng, size_t n) {
  Bytes a(1, (char)rng.below(256)), b(1, (char)rng.below(256));
  if (a == b) b[0]++;
  while (b.size() < n) { Bytes c = b + a; a = b; b = c; }
  b.resize(n);
  return b;
}
Bytes periodic(Rng &rng, size_t n) {
  size_t period = 1 + rng.below(rng.below(4) ? 6 : 3000);
  Bytes u = random_bytes(rng, period, 1 + (unsigned)rng.below(256));
  Bytes b;
  while (b.size() < n) {
    b += u;
    if (rng.below(50) == 0 && !u.empty()) u[rng.below(u.size())]++;   // tandem repeats with rare mutations
  }
  b.resize(n);
  return b;
}
// Input whose run-length-encoded size passes cap-3 .. cap+3 exactly at an interesting item.
Bytes capacity_edge(Rng &rng, int level, bool whole) {
  size_t cap = (size_t)level * 100000;
  Bytes b;
  // filler whose RLE size is known: pairs "xy" (no runs) count 1 per byte; 259-runs count 5
  size_t rle = 0;
  size_t target = cap - 3 + rng.below(7);      // where the interesting item starts (in RLE'd bytes)
  target -= std::min<size_t>(target, rng.below(4) * 5);
  int fill = (int)rng.below(3);
  unsigned char x = (unsigned char)rng.below(256);
  while (rle + 6 <= target) {
    if (fill == 0 || target - rle < 5) { b.push_back((char)(x + (rle & 1) * 7 + 1)); rle++; }
    else if (fill == 1) { b.append(259, (char)(x + (rle % 10 < 5 ? 3 : 4))); rle += 5; }
    else { unsigned l = 4 + (unsigned)rng.below(256); b.append(l, (char)(x + 5 + (b.size() & 1 ? 0 : 1) + (rle % 3))); rle += 5; }
  }
  while (rle < target) { b.push_back((char)(x + 9 + (rle & 1))); rle++; }
  // the interesting item
  unsigned char c = (unsigned char)(x + 20);
  switch (rng.below(6)) {
  case 0: b.append(3, (char)c); break;
  case 1: b.append(4, (char)c); break;
  case 2: b.append(5 + rng.below(300), (char)c); break;
  case 3: b.append(259, (char)c); b.append(1 + rng.below(5), (char)c); break;
  case 4: b.append(2, (char)c); b.push_back((char)(c + 1)); b.append(4, (char)c); break;
  default: b.push_back((char)c); break;
  }
  // tail
  size_t tail = rng.below(whole ? 3000 : 40);
  for (size_t i = 0; i < tail; i++) b.push_back((char)(x + 30 + rng.below(3)));
  return b;
}

// --sequential edge: at an input-chunk boundary (a multiple of level*100000 input bytes) a run of equal bytes is in
// progress and the block under construction holds capacity-1+e run-length-encoded bytes (e in -2..+1), so the resumed
// collector meets "one free slot left" exactly while finishing a run that started in the previous input buffer.
Bytes seq_edge(Rng &rng, int level) {
  const long chunk = (long)level * 100000, cap = chunk;
  long k = 2 + (long)rng.below(2);
  long e = (long)rng.below(4) - 2;
  long r0 = 1 + (long)rng.below(258), r = -1, A = -1;
  for (long t = 0; t < 258; t++) {
    long rr = 1 + (r0 - 1 + t) % 258;
    long num = (k - 1) * chunk + 1 - e - rr + std::min(rr, 4l);
    if (num >= 0 && num % 254 == 0) { r = rr; A = num / 254; break; }
  }
  if (r < 0) return capacity_edge(rng, level, true);
  long bl = cap - 1 + e - std::min(r, 4l) - 5 * A;
  if (bl < 0) return capacity_edge(rng, level, true);
  Bytes b;
  unsigned char x = (unsigned char)rng.below(256);
  // interleave the A long runs and the bl literal bytes in random order (the totals are what matters)
  long ra = A, rl = bl; int alt = 0; unsigned lit = 0;
  while (ra > 0 || rl > 0) {
    bool take_run = ra > 0 && (rl == 0 || rng.below((uint64_t)(ra + rl / 60 + 1)) < (uint64_t)ra);
    if (take_run) { b.append(259, (char)(x + 1 + (alt++ & 1))); ra--; }
    else { long m = std::min<long>(rl, 1 + (long)rng.below(200)); for (long i = 0; i < m; i++) b.push_back((char)(x + 3 + (lit++ & 1))); rl -= m; }
  }
  // fix possible accidental runs at the joints: literals use values x+3..x+6, runs x+1/x+2, the edge run x+9
  b.append((size_t)r, (char)(x + 9));
  static const long more[] = {0, 1, 2, 3, 5, 100, 254, 255, 300};
  b.append((size_t)more[rng.below(9)], (char)(x + 9));
  size_t tail = rng.below(3) == 0 ? 0 : rng.below(3000);      // a third of the time the input ends inside the run
  for (size_t i = 0; i < tail; i++) b.push_back((char)(x + 11 + rng.below(3)));
  return b;
}

Bytes input(Rng &rng, int level, size_t max_size, std::string *desc) {
  size_t chunk = (size_t)level * 100000;
  int kind = (int)rng.below(16);
  // size classes: tiny, sub-chunk, around chunk multiples, multi-chunk
  size_t n;
  switch (rng.below(6)) {
  case 0: n = rng.below(64); break;
  case 1: n = rng.below(std::min<size_t>(max_size, chunk)); break;
  case 2: { size_t k = 1 + rng.below(std::max<size_t>(1, max_size / chunk)); n = k * chunk - 3 + rng.below(7); break; }
  default: n = rng.below(max_size); break;
  }
  if (n > max_size) n = max_size;
  Bytes b; const char *name = "";
  switch (kind) {
  case 0: b = Bytes(); name = "empty"; break;
  case 1: b = tiny(rng); name = "tiny"; break;
  case 2: case 3: b = runs_around_limits(rng, n, 1 + (unsigned)rng.below(3)); name = "runs"; break;
  case 4: if (rng.below(2)) { b = capacity_edge(rng, level, rng.below(2)); name = "capacity-edge"; } else { b = seq_edge(rng, level); name = "sequential-edge"; } break;
  case 5: b = fibonacci(rng, n); name = "fibonacci"; break;
  case 6: b = periodic(rng, n); name = "periodic"; break;
  case 7: b = random_bytes(rng, n, 256); name = "all-bytes-random"; break;
  case 8: b = random_bytes(rng, n, 1 + (unsigned)rng.below(4)); name = "small-alphabet"; break;
  case 9: b = markov_text(rng, n); name = "text"; break;
  case 10: b = Bytes(n, (char)rng.below(256)); name = "one-symbol"; break;
  case 11: {   // runs straddling chunk boundaries
    name = "chunk-straddle";
    size_t k = 1 + rng.below(std::max<size_t>(1, std::min<size_t>(4, max_size / chunk)));
    for (size_t i = 0; i < k; i++) {
      Bytes part = random_bytes(rng, chunk - 2 - rng.below(300), 3);
      b += part;
      b.append(2 + rng.below(600), (char)rng.below(256));
      while (b.size() % chunk > 300 && b.size() % chunk < chunk - 300 && rng.below(2)) b.append(100, 'z');
    }
    break;
  }
  case 12: { name = "all-256"; for (size_t i = 0; i < n; i++) b.push_back((char)(i * 37 + (i >> 8))); break; }
  case 13: {   // runs of exactly four: the initial run-length encoding EXPANDS such data by a quarter
    name = "four-runs";
    unsigned char ch = (unsigned char)rng.below(256);
    unsigned alpha = 2 + (unsigned)rng.below(200);
    while (b.size() < n) { b.append(4, (char)(ch + rng.below(alpha) * 2 % 256)); ch++; if (rng.below(40) == 0) b.push_back((char)rng.below(256)); }
    b.resize(n);
    break;
  }
  default: {   // concatenation of two or three others
    name = "concat";
    int parts = 2 + (int)rng.below(2);
    for (int i = 0; i < parts; i++) { std::string d; b += input(rng, level, std::max<size_t>(1, max_size / 3), &d); }
    break;
  }
  }
  if (b.size() > max_size) b.resize(max_size);
  if (desc) *desc = std::string(name) + " " + std::to_string(b.size()) + "B";
  return b;
}

}  // namespace gen
