// Drivers for the file-system / fault facing properties: C16 C17 C18 C19 C21.
#include <signal.h>
#include <errno.h>
#include <string.h>
#include <algorithm>
#include "common.h"

namespace props {

static Bytes small_plain(Rng &rng, size_t maxn) {
  std::string d;
  switch (rng.below(5)) {
  case 0: return gen::random_bytes(rng, rng.below(maxn), 256);
  case 1: return Bytes(rng.below(maxn), 'a');
  case 2: return gen::markov_text(rng, rng.below(maxn));
  case 3: return gen::runs_around_limits(rng, rng.below(maxn), 2);
  default: return gen::periodic(rng, rng.below(maxn));
  }
}

// ===================================================================== C19
struct C19 : Driver {
  const char *prop() const override { return "C19"; }
  const char *level() const override { return "exploration"; }
  const char *variants(int) const override { return "plain ndebug/4 preempt/4"; }   // ndebug: assertion-free build = the shipped semantics; preempt: decision points inside unsynchronised code too
  uint64_t ncases(int tier) const override { return tier ? 2000000 : 200000; }
  std::string rule() const override {
    return "case = lbzip2 -cdf (any clustering/order of the three flags) on stdin that does not start with BZh1-9: sizes 0-5, around k*G-2..k*G+2 for copy buffer size G (shipped 65536 and, via hook H1, 4..4096 so that many buffers are cheap), "
           "near-miss headers (B, BZ, BZh, BZh0, BZh:, bZh9), random data; stdin as file or pipe with fragmentation incl. 1-byte reads that split the 4-byte sniff; any -n; seeded schedule with stalled reader/writer/main; "
           "oracle: exit 0, stderr empty, stdout = input, no deadlock, termination within the step budget (the copy path has its own SIGUSR2 termination protocol). For inputs that do start with a header a second run without -f must give the same status and bytes. "
           "distinct_nontrivial = distinct (input length class, G, fragmentation mode, interleaving hash)";
  }
  Case gen(uint64_t seed, int tier) const override {
    Rng rng(seed);
    Case c; c.prop = "C19";
    if (rng.below(5) == 0) {
      // several FILE operands in one -cdf invocation: copied and decompressed operands in any order
      c.p["multi"] = 1; c.p["header"] = 0;
      int nop = 2 + (int)rng.below(3);
      RunCfg r;
      r.argv = {"-n", std::to_string(random_workers(rng)), "-cdf"};
      r.copy_granul = rng.below(2) ? 0 : (16u << rng.below(8));
      for (int i = 0; i < nop; i++) {
        FileSpec f; f.name = std::string(1, (char)('a' + i)) + (rng.below(2) ? ".bz2" : ".txt");
        Bytes plain = small_plain(rng, rng.below(3) ? 3000 : 150000);
        if (rng.below(2)) f.data = bz::libbz2_encode(plain, 1 + (int)rng.below(9));
        else {
          f.data = plain; if (f.data.size() >= 4 && f.data[0] == 'B' && f.data[1] == 'Z' && f.data[2] == 'h') f.data[0] = 'C';
          if (f.data.size() > 8 && rng.below(4) == 0) { f.visible = (int64_t)(4 + rng.below(f.data.size() - 4)); f.grow_at = (int)rng.below(5); }    // the copied file is still being appended to while lbzip2 reads it: the whole of it is the input (seeded change C19-6)
        }
        c.files.push_back(f);
        r.argv.push_back(f.name);
      }
      r.sched = random_sched(rng);
      r.file_frag = random_frag(rng);
      c.data_desc = std::to_string(nop) + " FILE operands, mixed bzip2 / non-bzip2";
      c.runs.push_back(r);
      return c;
    }
    size_t G = rng.below(3) == 0 ? 0 : (4u << rng.below(11));
    size_t g = G ? G : 65536;
    size_t n;
    switch (rng.below(6)) {
    case 0: n = rng.below(6); break;
    case 1: { size_t k = rng.below(G ? 12 : 4); n = k * g + rng.below(5); if (n >= 2) n -= 2; break; }
    case 2: n = rng.below(g * 3); break;
    default: n = rng.below(g * (G ? 10 : 2)); break;
    }
    if (n > (tier ? 400000u : 200000u)) n = tier ? 400000 : 200000;
    c.data = gen::random_bytes(rng, n, rng.below(2) ? 256 : 3);
    bool header = false;
    switch (rng.below(10)) {
    case 0: { static const char *nm[] = {"B", "BZ", "BZh", "BZh0", "BZh:", "bZh9", "BZH9", "BYh9", "BZh"}; std::string p = nm[rng.below(9)]; c.data = p + (rng.below(2) ? c.data : Bytes()); break; }
    case 1: {   // real header: must behave like plain -d
      std::string d; Bytes z = gen_header_input(rng, &d); c.data = z; header = true; break; }
    default: if (c.data.size() >= 4 && c.data[0] == 'B' && c.data[1] == 'Z' && c.data[2] == 'h' && c.data[3] >= '1' && c.data[3] <= '9') c.data[0] = 'C'; break;
    }
    c.p["header"] = header;
    c.data_desc = std::string(header ? "bzip2-header input " : "non-bzip2 input ") + std::to_string(c.data.size()) + "B";
    RunCfg r;
    static const char *forms[][4] = {{"-cdf", 0, 0, 0}, {"-c", "-d", "-f", 0}, {"-fdc", 0, 0, 0}, {"--stdout", "--decompress", "--force", 0}, {"-d", "-cf", 0, 0}};
    int f = (int)rng.below(5);
    r.argv = {"-n", std::to_string(random_workers(rng))};
    for (int i = 0; forms[f][i]; i++) r.argv.push_back(forms[f][i]);
    r.copy_granul = G;
    r.sched = random_sched(rng);
    if (rng.below(3) == 0) { r.sched.policy = sim::P_STARVE; static const uint32_t m[] = {1u << sim::FC_SINK, 1u << sim::FC_SOURCE, 1u << sim::FC_MAIN, (1u << sim::FC_SINK) | (1u << sim::FC_SOURCE)}; r.sched.param = m[rng.below(4)]; }
    r.in_kind = rng.below(2) ? sim::K_PIPE : sim::K_FILE;
    r.in_frag = random_frag(rng);
    if (rng.below(4) == 0) { r.in_frag.mode = sim::FR_FIXED; r.in_frag.param = 1 + (uint32_t)rng.below(5); if (n > 20000) r.in_frag.param = 1 + (uint32_t)rng.below(4096); }
    if (rng.below(3) == 0) r.out_frag = random_frag(rng);
    c.runs.push_back(r);
    if (header) { RunCfg r2 = r; r2.argv = {"-n", std::to_string(random_workers(rng)), "-cd"}; r2.sched = random_sched(rng); c.runs.push_back(r2); }
    return c;
  }
  static Bytes gen_header_input(Rng &rng, std::string *d) {
    int k = (int)rng.below(3);
    if (k == 0) { Bytes p = small_plain(rng, 50000); *d = "valid"; return bz::libbz2_encode(p, 1 + (int)rng.below(9)); }
    if (k == 1) { Bytes p = small_plain(rng, 5000); Bytes z = bz::libbz2_encode(p, 9); if (z.size() > 12) z.resize(4 + rng.below(z.size() - 4)); *d = "truncated"; return z; }
    *d = "header+junk"; Bytes z = "BZh7"; size_t n = rng.below(100); for (size_t i = 0; i < n; i++) z.push_back((char)rng.below(256)); return z;
  }
  Verdict eval(const Case &c, Ctx &ctx) const override {
    if (c.runs.empty()) return Verdict();
    if (c.p.count("multi") && c.p.at("multi")) {
      Bytes expect;
      for (auto &f : c.files) {
        bool hdr = f.data.size() >= 4 && f.data[0] == 'B' && f.data[1] == 'Z' && f.data[2] == 'h' && f.data[3] >= '1' && f.data[3] <= '9';
        if (hdr) { bz::DecResult d = bz::refdec(f.data); if (d.verdict != bz::V_VALID) return Verdict(); expect += d.out; } else expect += f.data;
      }
      sim::Result a = exec(c.runs[0], Bytes(), c.files, ctx);
      if (Verdict v = global_monitors(a, "-cdf with several operands"); !v.ok()) return v;
      if (!a.exited(0)) return Verdict::fail("copy-status", "-cdf on several operands ended with " + a.describe() + "; " + c.runs[0].brief());
      if (a.out != expect) {
        size_t d = 0; while (d < a.out.size() && d < expect.size() && a.out[d] == expect[d]) d++;
        return Verdict::fail("copy-mismatch", "-cdf on " + std::to_string(c.files.size()) + " operands wrote " + std::to_string(a.out.size()) + " bytes, expected " + std::to_string(expect.size()) + " (copied/decompressed operands concatenated), first difference at " + std::to_string(d) + "; " + c.runs[0].brief());
      }
      for (auto &f : c.files) if (!a.world.exists(f.name)) return Verdict::fail("input-removed", "-c given but " + f.name + " was removed");
      if (ctx.st) { uint64_t k = 7; for (auto &f : c.files) k = k * 3 + (f.data.size() >= 3 && f.data[0] == 'B' && f.data[1] == 'Z'); ctx.st->distinct("nontrivial", sim::fnv(sim::fnv(k, c.files.size()), a.ihash)); ctx.st->inc("kind.several-operands"); }
      return Verdict();
    }
    RunCfg r = c.runs[0];
    size_t g = r.copy_granul ? r.copy_granul : 65536;
    r.step_budget = budget_for(c.data.size(), g, c.data.size(), g, 64);
    sim::Result a = exec(r, c.data, {}, ctx);
    if (Verdict v = global_monitors(a, "copy (-cdf)"); !v.ok()) return v;
    bool starts_with_header = c.data.size() >= 4 && c.data[0] == 'B' && c.data[1] == 'Z' && c.data[2] == 'h' && c.data[3] >= '1' && c.data[3] <= '9';
    if (!starts_with_header) {
      if (!a.exited(0)) return Verdict::fail("copy-status", "-cdf on non-bzip2 input ended with " + a.describe() + "; " + r.brief());
      if (!a.err.empty()) return Verdict::fail("copy-stderr", "-cdf printed: " + a.err.substr(0, 200));
      if (a.out != c.data) {
        size_t d = 0; while (d < a.out.size() && d < c.data.size() && a.out[d] == c.data[d]) d++;
        return Verdict::fail("copy-mismatch", "-cdf wrote " + std::to_string(a.out.size()) + " bytes for a " + std::to_string(c.data.size()) + "-byte input, first difference at " + std::to_string(d) + "; " + r.brief());
      }
    } else if (c.runs.size() > 1) {
      RunCfg r2 = c.runs[1];
      r2.step_budget = budget_for(c.data.size(), 262144, c.data.size() * 30 + 1000, 900000, 64);
      sim::Result b = exec(r2, c.data, {}, ctx);
      if (Verdict v = global_monitors(b, "plain decompression"); !v.ok()) return v;
      if (cls_of_exit(a) != cls_of_exit(b)) return Verdict::fail("header-status-differs", "input begins with a bzip2 header: -cdf ended with " + a.describe() + ", plain -cd with " + b.describe());
      if (a.exited(0) && a.out != b.out) return Verdict::fail("header-bytes-differ", "input begins with a bzip2 header: -cdf and -cd wrote different bytes");
    }
    if (ctx.st) {
      size_t n = c.data.size();
      uint64_t cls = n <= 5 ? n : (n % g <= 2 || n % g >= g - 2) ? 100 + n / g : 1000 + n / g;
      ctx.st->distinct("nontrivial", sim::fnv(sim::fnv(sim::fnv(cls, g), r.in_frag.mode * 100000ull + r.in_frag.param), a.ihash));
      ctx.st->inc(starts_with_header ? "kind.header-input" : n < 4 ? "kind.shorter-than-sniff" : "kind.non-bzip2");
      add_sample(ctx, c, obs_json(a));
    }
    return Verdict();
  }
};
static Registrar r19(new C19);

// ===================================================================== C21
struct FaultPoint { int kind; int k; int err; int64_t arg; };   // kind: 0 read fault, 1 write fault, 2 write partial, 3 reader closes after arg bytes, 4 size limit arg
static std::string fp_name(const FaultPoint &f) {
  char b[128];
  static const char *kn[] = {"read", "write", "write-after-partial", "stdout-reader-closes-after", "file-size-limit"};
  snprintf(b, sizeof b, "%s #%d errno=%d arg=%lld", kn[f.kind], f.k, f.err, (long long)f.arg);
  return b;
}

struct C21 : Driver {
  const char *prop() const override { return "C21"; }
  const char *level() const override { return "fault_enumeration"; }
  uint64_t ncases(int tier) const override { return tier ? 5000 : 480; }
  bool exhaustive() const override { return true; }
  std::string exhaustive_note() const override { return "for each listed (scenario, schedule seed): every read() position fails once with EIO, every write() position fails once with each of EPIPE, EIO, ENOSPC, EFBIG (and once more after a partial count), and the stdout reader closes / the file-size limit hits at 0, 1 and every write boundary; scenarios, schedules and dispositions are sampled"; }
  std::string rule() const override {
    return "case = one filter scenario (compress / decompress / -cdf copy; small or multi-block input; -n 1,2,4; SIGPIPE and SIGXFSZ inherited as default or ignored) under one seeded schedule. A fault-free run records how many read() and write() calls happen; "
           "then EVERY call position is failed once per errno (the schedule prefix up to the fault is identical, so the position is well defined). oracle per injected fault that fired: never exit 0; exit 1, or death by SIGPIPE/SIGXFSZ only for EPIPE/EFBIG with the default action; "
           "a diagnostic on stderr unless the error is EPIPE or EFBIG; no deadlock, no step-budget overrun (promptness), no assertion. distinct_nontrivial = distinct (scenario, call kind, position, errno, disposition) whose fault fired";
  }
  Case gen(uint64_t seed, int tier) const override {
    Rng rng(seed);
    Case c; c.prop = "C21";
    int mode = (int)rng.below(3);   // 0 compress 1 decompress 2 copy
    static const int ws[] = {1, 2, 4};
    int W = ws[rng.below(3)];
    c.p["mode"] = mode; c.p["only"] = -1;
    RunCfg r;
    if (mode == 0) {
      int level = 1;
      c.data = small_plain(rng, rng.below(2) ? 3000 : (tier ? 450000 : 250000));
      r = compress_cfg(rng, level, rng.below(2), W, false);
    } else if (mode == 1) {
      Bytes p = small_plain(rng, rng.below(2) ? 3000 : 200000);
      c.data = lib_multistream(rng, p, 1 + (int)rng.below(3));
      r = decompress_cfg(rng, W, false, c.data.size(), p.size() + 1);
      if (rng.below(2)) { r.in_granul = 64u << rng.below(6); r.out_granul = 500 + rng.below(20000); }   // more I/O calls to fail
    } else {
      c.data = gen::random_bytes(rng, rng.below(3000), 256);
      if (c.data.size() >= 2 && c.data[0] == 'B') c.data[0] = 'b';
      r.argv = {"-n", std::to_string(W), "-cdf"};
      r.copy_granul = 16u << rng.below(6);
      r.sched = random_sched(rng);
    }
    c.data_desc = std::string(mode == 0 ? "compress " : mode == 1 ? "decompress " : "copy ") + std::to_string(c.data.size()) + "B";
    r.in_kind = sim::K_PIPE; r.out_kind = sim::K_PIPE;
    r.in_frag = sim::Frag(); r.out_frag = sim::Frag();
    if (rng.below(3) == 0) { r.in_frag.mode = sim::FR_FIXED; r.in_frag.param = 1000 + (uint32_t)rng.below(50000); }
    r.ign_pipe = rng.below(2); r.ign_xfsz = rng.below(2);
    random_procenv(rng, r);
    if (rng.below(3) == 0) r.argv.push_back(rng.below(2) ? "-v" : "--verbose");     // informational messages and the progress display take the stderr lock too (seeded change C21-4)
    r.sched.spurious = 0;
    c.runs.push_back(r);
    return c;
  }
  Verdict eval(const Case &c, Ctx &ctx) const override {
    if (c.runs.empty()) return Verdict();
    RunCfg base = c.runs[0];
    base.faults.clear(); base.sigs.clear(); base.out_close_after = -1; base.out_size_limit = -1;
    sim::Result b = exec(base, c.data, {}, ctx);
    if (Verdict v = global_monitors(b, "fault-free run"); !v.ok()) return v;
    if (!b.exited(0)) return Verdict::fail("baseline-status", "the fault-free run ended with " + b.describe());
    unsigned nr = b.calls[sim::C_READ][sim::R_IN], nw = b.calls[sim::C_WRITE][sim::R_OUT];
    std::vector<FaultPoint> pts;
    for (unsigned k = 0; k < nr; k++) pts.push_back({0, (int)k, EIO, 0});
    static const int werr[] = {EPIPE, EIO, ENOSPC, EFBIG};
    for (unsigned k = 0; k < nw; k++) for (int e : werr) { pts.push_back({1, (int)k, e, 0}); pts.push_back({2, (int)k, e, 1 + (int64_t)(k % 7)}); }
    // early-closed pipe and size limit at 0, 1 and every write boundary (boundaries from the baseline's output length pattern)
    {
      std::vector<int64_t> cuts = {0, 1};
      int64_t total = (int64_t)b.out.size();
      if (nw) for (unsigned k = 1; k <= nw && k < 40; k++) cuts.push_back(total * k / nw);
      if (total > 2) cuts.push_back(total - 1);
      for (int64_t cpos : cuts) if (cpos < total) { pts.push_back({3, 0, EPIPE, cpos}); pts.push_back({4, 0, EFBIG, cpos}); }
    }
    int64_t only = c.p.count("only") ? c.p.at("only") : -1;
    for (size_t i = 0; i < pts.size(); i++) {
      if (only >= 0 && (size_t)only != i) continue;
      const FaultPoint &fp = pts[i];
      RunCfg r = base;
      if (fp.kind == 0) { sim::Fault f; f.call = sim::C_READ; f.role = sim::R_IN; f.k = fp.k; f.err = fp.err; r.faults.push_back(f); }
      else if (fp.kind == 1 || fp.kind == 2) { sim::Fault f; f.call = sim::C_WRITE; f.role = sim::R_OUT; f.k = fp.k; f.err = fp.err; f.partial = fp.kind == 2 ? fp.arg : 0; r.faults.push_back(f); }
      else if (fp.kind == 3) r.out_close_after = fp.arg;
      else r.out_size_limit = fp.arg;
      r.step_budget = 200000 + 400 * b.steps;
      sim::Result a = exec(r, c.data, {}, ctx);
      bool fired = fp.kind >= 3 ? true : (!a.faults.empty() && a.faults[0].fired);
      if (fp.kind == 2 && fired) {
        // the error itself is delivered by the write that follows the partial one; if the data ended exactly there, nothing failed
        if (a.exited(0) && a.out.size() == b.out.size()) fired = false;
      }
      if (!fired) { if (ctx.st) ctx.st->inc("oracle.fault_position_not_reached"); continue; }
      std::string what = fp_name(fp) + (r.ign_pipe ? " SIGPIPE=ign" : " SIGPIPE=dfl") + (r.ign_xfsz ? " SIGXFSZ=ign" : " SIGXFSZ=dfl");
      Verdict v = global_monitors(a, "run with injected I/O failure");
      if (v.ok()) {
        bool sig_ok = (fp.err == EPIPE && !r.ign_pipe && a.kind == sim::X_SIGNAL && a.code == SIGPIPE) || (fp.err == EFBIG && !r.ign_xfsz && a.kind == sim::X_SIGNAL && a.code == SIGXFSZ);
        if (a.exited(0)) v = Verdict::fail("success-after-failure", "exit status 0 although an I/O call failed (" + what + ")");
        else if (!(a.exited(1) || sig_ok)) v = Verdict::fail("wrong-ending", "ended with " + cls_of_exit(a) + " (" + what + "); allowed: exit 1" + (fp.err == EPIPE || fp.err == EFBIG ? ", or the signal with default action" : ""));
        else if (a.exited(1) && fp.err != EPIPE && fp.err != EFBIG && a.err.empty()) v = Verdict::fail("no-diagnostic", "exit 1 without a diagnostic (" + what + ")");
      }
      if (!v.ok()) { v.msg += " -- " + a.describe() + "; " + r.brief(); v.narrow["only"] = (int64_t)i; return v; }
      if (ctx.st) ctx.st->distinct("nontrivial", sim::fnv(sim::fnv(sim::fnv(sim::fnv(c.seed, fp.kind), fp.k * 1000 + fp.err), fp.arg), r.ign_pipe * 2 + r.ign_xfsz));
    }
    if (ctx.st) { ctx.st->inc("oracle.fault_points", pts.size()); static const char *kn[] = {"compress", "decompress", "copy"}; ctx.st->inc(std::string("kind.") + kn[c.p.at("mode")]); add_sample(ctx, c, "\"reads\": " + std::to_string(nr) + ", \"writes\": " + std::to_string(nw) + ", \"fault_points\": " + std::to_string(pts.size())); }
    return Verdict();
  }
};
static Registrar r21(new C21);

// ===================================================================== operand scenarios (C16, C17, C18)
struct Operand { std::string in, out; Bytes indata, expect; bool never = false; };

static std::string out_name(const std::string &in, bool decompress) {
  if (!decompress) return in + ".bz2";
  auto ends = [&](const char *s) { size_t l = strlen(s); return in.size() >= l && in.compare(in.size() - l, l, s) == 0; };
  if (ends(".bz2")) return in.substr(0, in.size() - 4);
  if (ends(".tbz2")) return in.substr(0, in.size() - 5) + ".tar";
  if (ends(".tbz")) return in.substr(0, in.size() - 4) + ".tar";
  if (ends(".tz2")) return in.substr(0, in.size() - 4) + ".tar";
  return in + ".out";
}

// ===================================================================== C16
struct C16 : Driver {
  const char *prop() const override { return "C16"; }
  const char *level() const override { return "fault_enumeration"; }
  uint64_t ncases(int tier) const override { return tier ? 700 : 128; }
  bool exhaustive() const override { return true; }
  std::string exhaustive_note() const override { return "for each listed (scenario, schedule seed): SIGINT, SIGTERM and SIGKILL injected at EVERY decision step of the fault-free run, and every n-th read/write/close/fchown/fchmod/futimens/unlink call failed once with each applicable errno; scenarios and schedule seeds are sampled (thorough adds random double faults)"; }
  std::string rule() const override {
    return "case = lbzip2 on 1-3 FILE operands (compress or decompress, with or without -k, small or multi-block, -n 1-3) under one seeded schedule. A fault-free run records the number of decision steps T and of calls per kind; then every step t<=T receives SIGINT, SIGTERM, SIGKILL in turn "
           "and every k-th read/write/close/fchown/fchmod/futimens/unlink fails once per errno (EIO, ENOSPC, EFBIG, EPIPE; EACCES/EPERM for metadata and unlink). oracle on the final file system, per operand: either input present and unchanged with no output file, "
           "or output present, byte-identical to the fault-free output, closed, with input removed unless -k; never input gone with output missing/partial, never a partial output after a normal exit; SIGKILL: input intact unless the complete output exists. "
           "Relaxations tied to the fault that fired: failed unlink(input) leaves the input (status 4); failed unlink(output) inside cleanup leaves that file; failed metadata calls give status 4. Exit must be 0/4 (then every operand is finished), 1, or death by the injected signal "
           "(SIGPIPE/SIGXFSZ for EPIPE/EFBIG). distinct_nontrivial = distinct (scenario, fault kind, position) whose fault fired";
  }
  Case gen(uint64_t seed, int tier) const override {
    Rng rng(seed);
    Case c; c.prop = "C16";
    bool dec = rng.below(2), keep = rng.below(2);
    int nop = 1 + (int)rng.below(3);
    c.p["dec"] = dec; c.p["keep"] = keep; c.p["nop"] = nop; c.p["only"] = -1;
    c.p["double"] = tier ? 200 : 0;     // part of the case (not of the evaluation context), so that a replay sees the same injection list
    RunCfg r;
    r.argv = {"-n", std::to_string(1 + (int)rng.below(3))};
    if (dec) r.argv.push_back("-d");
    if (keep) r.argv.push_back("-k");
    if (!dec) r.argv.push_back("-1");
    if (rng.below(3) == 0) r.argv.push_back("-v");     // diagnostics traffic on stderr (its failure is one more injected fault)
    for (int i = 0; i < nop; i++) {
      FileSpec f;
      Bytes plain = small_plain(rng, rng.below(3) ? 2000 : (tier ? 420000 : 230000));
      f.name = std::string(1, (char)('a' + i)) + (dec ? ".bz2" : ".dat");
      f.data = dec ? lib_multistream(rng, plain, 1 + (int)rng.below(2)) : plain;
      f.mode = 0600 | (unsigned)rng.below(0200);
      c.files.push_back(f);
      r.argv.push_back(f.name);
    }
    r.sched = random_sched(rng, false);
    random_procenv(rng, r);
    if (dec && rng.below(2)) { r.in_granul = 256u << rng.below(4); r.out_granul = 2000 + rng.below(30000); }
    // "the run fails (... corrupt data)": one operand damaged (flipped bit or truncation); the fault-free baseline then already ends with status 1
    // there, and the injected signals/errors land before, inside and after lbzip2's own error handling
    int corrupt_at = -1;
    if (dec && rng.below(4) == 0) {
      corrupt_at = (int)rng.below(nop);
      Bytes &d = c.files[corrupt_at].data;
      Bytes orig = d;
      if (d.size() > 14) { size_t pos = 10 + rng.below(d.size() - 10); d[pos] ^= (char)(1u << rng.below(8)); if (rng.below(3) == 0) d.resize(pos + 1); }
      if (bz::refdec(d).verdict != bz::V_INVALID) { d = orig; corrupt_at = -1; }      // harmless damage (unused bits) or a documented-exception/uncertain verdict: keep the operand intact instead
    }
    c.p["corrupt_at"] = corrupt_at;
    c.data_desc = std::string(dec ? "decompress " : "compress ") + std::to_string(nop) + " operands" + (keep ? " -k" : "") + (corrupt_at >= 0 ? " corrupt#" + std::to_string(corrupt_at) : "");
    c.runs.push_back(r);
    return c;
  }
  struct Inj { int kind; int64_t a, b, c; };   // kind 0 signal(sig=a, step=b); 1 call fault(call=a, role/k packed: b=k, c=errno)
  static std::string inj_name(const Inj &i) {
    char buf[128];
    if (i.kind == 0) snprintf(buf, sizeof buf, "signal %d at decision step %lld", (int)i.a, (long long)i.b);
    else snprintf(buf, sizeof buf, "%s call #%lld fails with errno %d", sim::call_name((int)i.a), (long long)i.b, (int)i.c);
    return buf;
  }
  Verdict eval(const Case &c, Ctx &ctx) const override {
    if (c.runs.empty() || c.files.empty()) return Verdict();
    bool dec = c.p.at("dec"), keep = c.p.at("keep");
    RunCfg base = c.runs[0];
    base.faults.clear(); base.sigs.clear();
    sim::Result b = exec(base, Bytes(), c.files, ctx);
    if (Verdict v = global_monitors(b, "fault-free run"); !v.ok()) return v;
    int corrupt_at = c.p.count("corrupt_at") ? (int)c.p.at("corrupt_at") : -1;
    if (corrupt_at < 0 ? !b.exited(0) : !b.exited(1)) return Verdict::fail("baseline-status", "the fault-free run ended with " + b.describe());
    std::vector<Operand> ops;
    int opi = -1;
    for (auto &f : c.files) {
      opi++;
      Operand o; o.in = f.name; o.out = out_name(f.name, dec); o.indata = f.data;
      if (corrupt_at >= 0 && opi >= corrupt_at) {     // the damaged operand and everything after it: never finished, whatever else happens
        o.never = true;
        if (b.world.lookup(o.out)) return Verdict::fail("partial-output-left", "run on a damaged operand (no injected fault) left " + o.out + " behind: " + b.describe());
        const sim::Inode *in0 = b.world.lookup(o.in);
        if (!in0 || in0->data != o.indata) return Verdict::fail("data-lost", "run on a damaged operand (no injected fault) removed or changed " + o.in);
        ops.push_back(o);
        continue;
      }
      const sim::Inode *out = b.world.lookup(o.out);
      if (!out) return Verdict::fail("baseline-no-output", "fault-free run left no output file " + o.out);
      o.expect = out->data;
      if (!keep && b.world.exists(o.in)) return Verdict::fail("baseline-input-kept", "fault-free run without -k kept " + o.in);
      if (keep && !b.world.exists(o.in)) return Verdict::fail("baseline-input-lost", "fault-free run with -k removed " + o.in);
      ops.push_back(o);
    }
    // enumeration
    std::vector<Inj> inj;
    for (uint64_t t = 1; t <= b.steps; t++) for (int sg : {SIGINT, SIGTERM, SIGKILL}) inj.push_back({0, sg, (int64_t)t, 0});
    struct CK { int call; std::vector<int> errs; };
    std::vector<CK> cks = {{sim::C_READ, {EIO}}, {sim::C_WRITE, {EIO, ENOSPC, EFBIG, EPIPE}}, {sim::C_CLOSE, {EIO, ENOSPC}}, {sim::C_FCHOWN, {EPERM}}, {sim::C_FCHMOD, {EPERM}}, {sim::C_FUTIMENS, {EACCES}}, {sim::C_UNLINK, {EACCES, EIO}}, {sim::C_STDERR, {EPIPE, ENOSPC}}};
    for (auto &ck : cks) for (unsigned k = 0; k < b.calls[ck.call][sim::R_ANY]; k++) for (int e : ck.errs) inj.push_back({1, ck.call, (int64_t)k, e});
    size_t base_inj = inj.size();
    if (int64_t nd = c.p.count("double") ? c.p.at("double") : 0) {   // random double faults: a signal while an error is being handled
      Rng rng(c.seed ^ 0xD0B1E);
      for (int i = 0; i < nd && base_inj; i++) inj.push_back({2, (int64_t)rng.below(base_inj), (int64_t)rng.below(base_inj), 0});
    }
    int64_t only = c.p.count("only") ? c.p.at("only") : -1;
    for (size_t i = 0; i < inj.size(); i++) {
      if (only >= 0 && (size_t)only != i) continue;
      RunCfg r = base;
      std::vector<Inj> parts;
      if (inj[i].kind == 2) { parts.push_back(inj[inj[i].a]); parts.push_back(inj[inj[i].b]); } else parts.push_back(inj[i]);
      std::string what;
      for (auto &p : parts) {
        if (p.kind == 0) { sim::SigEvent e; e.step = (uint64_t)p.b; e.sig = (int)p.a; r.sigs.push_back(e); }
        else { sim::Fault f; f.call = (int)p.a; f.role = sim::R_ANY; f.k = (int)p.b; f.err = (int)p.c; r.faults.push_back(f); }
        what += (what.empty() ? "" : " + ") + inj_name(p);
      }
      r.step_budget = 200000 + 400 * b.steps;
      sim::Result a = exec(r, Bytes(), c.files, ctx);
      // which faults fired
      bool any_fired = false, kill9 = false, unlink_fault = false, meta_fault = false, io_fault = false, close_fault = false, stderr_fault = false;
      uint64_t sigs_injected = 0; bool epipe_fired = false, efbig_fired = false;     // with a double fault either injected signal may be the one that ends the process
      for (auto &e : a.sigs) if (e.fired) { any_fired = true; if (e.sig == SIGKILL) kill9 = true; else sigs_injected |= 1ull << e.sig; }
      for (auto &f : a.faults) if (f.fired) { any_fired = true; if (f.err == EPIPE) epipe_fired = true; if (f.err == EFBIG) efbig_fired = true; if (f.call == sim::C_UNLINK) unlink_fault = true; else if (f.call == sim::C_FCHOWN || f.call == sim::C_FCHMOD || f.call == sim::C_FUTIMENS) meta_fault = true; else if (f.call == sim::C_CLOSE) close_fault = true; else if (f.call == sim::C_STDERR) stderr_fault = true; else io_fault = true; }
      if (!any_fired) { if (ctx.st) ctx.st->inc("oracle.fault_position_not_reached"); continue; }
      Verdict v = kill9 ? Verdict() : global_monitors(a, "run with injected fault");
      if (v.ok() && !kill9) {
        bool ok_end = a.exited(0) || a.exited(4) || a.exited(1) || (a.kind == sim::X_SIGNAL && (((sigs_injected >> a.code) & 1) || (epipe_fired && a.code == SIGPIPE) || (efbig_fired && a.code == SIGXFSZ)));
        if (!ok_end) v = Verdict::fail("wrong-ending", "ended with " + cls_of_exit(a));
        else if ((io_fault || close_fault) && (a.exited(0) || a.exited(4)) ) {
          // a failed read/write/close must never be reported as success -- except close() of the input after everything was written? no: that is exit 1 too
          v = Verdict::fail("success-after-failure", "exit status " + std::to_string(a.code) + " although a read/write/close call failed");
        }
      }
      if (v.ok()) {
        for (auto &o : ops) {
          const sim::Inode *in = a.world.lookup(o.in), *out = a.world.lookup(o.out);
          bool in_ok = in && in->data == o.indata;
          bool out_complete = out && !o.never && out->data == o.expect;
          bool out_closed = out && out->closed_ok;
          if (kill9) {
            if (!in_ok && !out_complete) { v = Verdict::fail("data-lost", "after SIGKILL operand " + o.in + ": input " + (in ? "changed" : "gone") + " and output " + (out ? "incomplete" : "missing")); break; }
            continue;
          }
          if (in && !in_ok) { v = Verdict::fail("input-changed", "operand " + o.in + " was modified"); break; }
          if (!in && !out_complete) { v = Verdict::fail("data-lost", "operand " + o.in + ": input removed but output " + o.out + (out ? " is incomplete" : " is missing")); break; }
          if (out && !out_complete && !unlink_fault) { v = Verdict::fail("partial-output-left", "operand " + o.in + ": partial output " + o.out + " (" + std::to_string(out->data.size()) + " of " + std::to_string(o.expect.size()) + " bytes) remains after the process ended"); break; }
          // the two allowed end states exclude each other: once the output is complete the input is gone (unless -k), also when the run then
          // ends by a signal or with status 1 - lbzip2 keeps SIGINT/SIGTERM blocked from the creation of the output until the input is removed
          if (!keep && in && out_complete && !unlink_fault) { v = Verdict::fail("both-present", "operand " + o.in + ": the output " + o.out + " is complete but the input was not removed (no -k): neither of the two allowed end states"); break; }
          if (out && out_complete && !out_closed && a.kind == sim::X_EXIT && (a.code == 0 || a.code == 4)) { v = Verdict::fail("output-not-closed", "status " + std::to_string(a.code) + " but " + o.out + " was never closed successfully"); break; }
          if (a.kind == sim::X_EXIT && (a.code == 0 || a.code == 4)) {
            if (!out_complete) { v = Verdict::fail("success-without-output", "status " + std::to_string(a.code) + " but operand " + o.in + " has no complete output"); break; }
            if (!keep && in && !unlink_fault) { v = Verdict::fail("input-kept", "status " + std::to_string(a.code) + " without -k but " + o.in + " still exists"); break; }
            if (keep && !in) { v = Verdict::fail("input-removed-with-k", "-k given but " + o.in + " was removed"); break; }
          }
          if (keep && !in) { v = Verdict::fail("input-removed-with-k", "-k given but " + o.in + " was removed"); break; }
        }
        if (v.ok() && a.exited(0) && (meta_fault || unlink_fault) && !stderr_fault) v = Verdict::fail("warning-lost", "a metadata/unlink call failed but the exit status is 0 instead of 4");
      }
      if (!v.ok()) { v.msg = what + ": " + v.msg + " -- " + a.describe() + "; " + r.brief(); v.narrow["only"] = (int64_t)i; return v; }
      if (ctx.st) ctx.st->distinct("nontrivial", sim::fnv(sim::fnv(sim::fnv(c.seed, inj[i].kind * 100 + inj[i].a), inj[i].b), inj[i].c));
    }
    if (ctx.st) { ctx.st->inc("oracle.injection_points", inj.size()); ctx.st->inc(dec ? "kind.decompress" : "kind.compress"); ctx.st->inc(keep ? "kind.keep" : "kind.remove-input"); add_sample(ctx, c, "\"decision_steps\": " + std::to_string(b.steps) + ", \"injection_points\": " + std::to_string(inj.size())); }
    return Verdict();
  }
};
static Registrar r16(new C16);

// ===================================================================== C17
struct OpSpec { std::string name; int kind; };
// operand kinds
enum { OK_REG = 0, OK_SYMLINK, OK_HARDLINK, OK_DIR, OK_MISSING, OK_UNREADABLE, OK_FIFO, OK_CHARDEV, OK_NKINDS };

struct C17 : Driver {
  const char *prop() const override { return "C17"; }
  const char *level() const override { return "exploration"; }
  uint64_t ncases(int tier) const override { return tier ? 1500000 : 120000; }
  std::string rule() const override {
    return "case = random option set from {-d/-z, -k, -c, -t, -f} and 1-3 operands drawn from {regular, symlink to regular, hard-linked, directory, missing, unreadable, named pipe, character device} x {no suffix, .bz2, .tbz, .tbz2, .tz2, other suffix, empty stem}, optional pre-existing output "
           "(regular / dangling symlink / directory), random permission bits incl. setuid/setgid/sticky and nanosecond timestamps, run in the simulated file system under a seeded schedule; compared with an executable model of the documented rules: which operands are skipped with a warning, "
           "output names, output content, permission bits and atime/mtime copied, input removed or kept, existing files untouched without -f, exit status 0/4. Only what the statement promises is compared. The simulator contributes the controllable file system and schedule; the rules themselves are sequential. "
           "distinct_nontrivial = distinct (option set, operand kind, suffix, pre-existing output kind) tuples";
  }
  struct Item { FileSpec f; int kind; int suffix; int pre; bool valid_content; Bytes plain; };
  static const char *suffix_of(int s) { static const char *t[] = {"", ".bz2", ".tbz", ".tbz2", ".tz2", ".txt", ".bz2"}; return t[s]; }
  Case gen(uint64_t seed, int tier) const override {
    Rng rng(seed);
    Case c; c.prop = "C17";
    bool dec = rng.below(2), keep = rng.below(3) == 0, force = rng.below(4) == 0;
    int om = (int)rng.below(5); om = om < 3 ? 0 : om == 3 ? 1 : 2;    // 0 files, 1 -c, 2 -t
    if (om == 2) dec = true;
    c.p["dec"] = dec; c.p["keep"] = keep; c.p["force"] = force; c.p["om"] = om;
    RunCfg r;
    r.argv = {"-n", std::to_string(1 + (int)rng.below(3))};
    if (dec && om != 2) r.argv.push_back(rng.below(2) ? "-d" : "--decompress");
    if (!dec && rng.below(2)) r.argv.push_back("-z");
    if (keep) r.argv.push_back("-k");
    if (force) r.argv.push_back("-f");
    if (om == 1) r.argv.push_back("-c");
    if (om == 2) r.argv.push_back("-t");
    if (!dec) r.argv.push_back("-" + std::to_string(1 + (int)rng.below(2)));
    int nop = 1 + (int)rng.below(3);
    bool many = om == 0 && !force && !keep && rng.below(12) == 0;      // a long list of skipped (hard-linked / odd) operands under a small descriptor limit, then ordinary ones: whatever is opened for a skipped operand must be closed again (seeded change C17-4)
    if (many) { nop = 12 + (int)rng.below(24); r.nofile = 8 + (int)rng.below(6); }
    random_procenv(rng, r);
    if (rng.below(4) == 0) { static const unsigned um[] = {0, 077, 0200, 0277, 0600, 0777, 027, 0222}; r.umask = um[rng.below(8)]; }     // the inherited umask filters open(O_CREAT) but not fchmod(): the output must get the input's permission bits whatever it is (seeded change C17-5)
    c.p["nop"] = nop;
    for (int i = 0; i < nop; i++) {
      int kind = (int)rng.below(12); kind = kind < 4 ? OK_REG : kind - 3;   // REG over-weighted; 1..8 -> other kinds
      if (many) kind = i + 3 >= nop ? OK_REG : rng.below(4) ? OK_HARDLINK : kind;
      if (kind >= OK_NKINDS) kind = OK_REG;
      if (force && (kind == OK_SYMLINK || kind == OK_DIR)) kind = OK_REG;        // -f on non-regular operands: outside the statement
      if ((force || om != 0) && (kind == OK_FIFO || kind == OK_CHARDEV)) kind = OK_REG;   // named pipes / devices are only judged where the statement speaks: skipped when output files are written
      int suffix = (int)rng.below(7);
      std::string stem = suffix == 6 ? "" : std::string(1, (char)('a' + (i + 15) % 26)) + std::to_string(i);
      std::string name = stem + suffix_of(suffix);
      if (name.empty()) name = "n" + std::to_string(i);
      c.p["kind" + std::to_string(i)] = kind; c.p["suffix" + std::to_string(i)] = suffix;
      Bytes plain = small_plain(rng, 3000);
      Bytes content = dec ? bz::libbz2_encode(plain, 1 + (int)rng.below(9)) : plain;
      FileSpec f; f.name = name; f.data = content;
      f.mode = (unsigned)rng.below(01000) | 0400; if (rng.below(6) == 0) f.mode |= (unsigned)(rng.below(8) << 9);
      f.atime_s = 1000000000 + (int64_t)rng.below(700000000); f.atime_ns = (int64_t)rng.below(1000000000);
      f.mtime_s = 1000000000 + (int64_t)rng.below(700000000); f.mtime_ns = (int64_t)rng.below(1000000000);
      switch (kind) {
      case OK_REG: c.files.push_back(f); break;
      case OK_HARDLINK: f.nlink_extra = 1; c.files.push_back(f); break;
      case OK_UNREADABLE: f.noread = true; f.mode &= ~0444u; c.files.push_back(f); break;
      case OK_SYMLINK: { FileSpec t = f; t.name = "target" + std::to_string(i); c.files.push_back(t); FileSpec l; l.name = name; l.type = sim::T_LNK; l.data = t.name; l.mode = 0777; c.files.push_back(l); break; }
      case OK_DIR: { FileSpec d; d.name = name; d.type = sim::T_DIR; d.mode = 0755; c.files.push_back(d); break; }
      case OK_FIFO: f.type = sim::T_FIFO; c.files.push_back(f); break;
      case OK_CHARDEV: f.type = sim::T_CHR; c.files.push_back(f); break;
      default: break;   // missing
      }
      r.argv.push_back(name);
      // pre-existing output
      int pre = rng.below(4) == 0 ? 1 + (int)rng.below(3) : 0;
      c.p["pre" + std::to_string(i)] = pre;
      std::string on = out_name(name, dec);
      if (pre && om == 0 && !on.empty()) {
        bool clash = false; for (auto &x : c.files) if (x.name == on) clash = true;
        if (!clash) {
          FileSpec o; o.name = on;
          if (pre == 1) { o.data = "old output"; o.mode = 0640; }
          else if (pre == 2) { o.type = sim::T_LNK; o.data = "nowhere" + std::to_string(i); o.mode = 0777; }
          else { o.type = sim::T_DIR; o.mode = 0755; }
          c.files.push_back(o);
        } else c.p["pre" + std::to_string(i)] = 0;
      }
    }
    r.sched = random_sched(rng);
    if (rng.below(6) == 0) {   // the diagnostic channel itself fails (closed pipe, full device): lbzip2 bails out, which must not cost data
      sim::Fault ft; ft.call = sim::C_STDERR; ft.role = sim::R_ANY; ft.k = (int)rng.below(5); ft.err = rng.below(2) ? EPIPE : ENOSPC;
      r.faults.push_back(ft);
    }
    c.data_desc = std::string(dec ? "decompress" : "compress") + (keep ? " -k" : "") + (force ? " -f" : "") + (om == 1 ? " -c" : om == 2 ? " -t" : "") + " " + std::to_string(nop) + " operands";
    c.runs.push_back(r);
    return c;
  }
  Verdict eval(const Case &c, Ctx &ctx) const override {
    if (c.runs.empty()) return Verdict();
    bool dec = c.p.at("dec"), keep = c.p.at("keep"), force = c.p.at("force"); int om = (int)c.p.at("om");
    sim::World w0 = make_world(c.files);
    sim::Result a = exec(c.runs[0], Bytes(), c.files, ctx);
    if (Verdict v = global_monitors(a, "run"); !v.ok()) return v;
    bool stderr_failed = false;
    for (auto &ft : a.faults) if (ft.fired && ft.call == sim::C_STDERR) stderr_failed = true;
    if (stderr_failed) {
      // A failing stderr makes lbzip2 bail out (status 1); the documented file-safety rules still bind:
      // nothing that existed before may be modified or removed unless it is an input whose output is complete,
      // or (-f) the output name of an operand.
      int nopx = (int)c.p.at("nop");
      std::vector<std::string> ins; { const auto &av = c.runs[0].argv; for (size_t i = av.size() - nopx; i < av.size(); i++) ins.push_back(av[i]); }
      for (auto &kv : w0.dir) {
        const sim::Inode &was = w0.inodes[kv.second];
        const sim::Inode *now = a.world.lookup(kv.first);
        bool is_in = std::find(ins.begin(), ins.end(), kv.first) != ins.end();
        bool is_forced_out = false;
        if (force) for (auto &i : ins) if (out_name(i, dec) == kv.first) is_forced_out = true;
        if (is_forced_out) continue;
        if (!now) {
          const sim::Inode *o = is_in ? a.world.lookup(out_name(kv.first, dec)) : nullptr;
          if (!(is_in && !keep && om == 0 && o && o->closed_ok)) return Verdict::fail("file-removed", "stderr write failed (" + cls_of_exit(a) + "): existing file " + kv.first + " was removed" + (is_in ? " although no complete output exists" : " although it is not a processed input") + "; " + c.data_desc + "; " + c.runs[0].brief());
        } else if (now->data != was.data || now->type != was.type) return Verdict::fail("file-modified", "stderr write failed: existing file " + kv.first + " was modified; " + c.data_desc);
      }
      if (ctx.st) { ctx.st->inc("kind.stderr-write-failed"); ctx.st->distinct("nontrivial", sim::fnv(0x57de77, sim::fnv(dec * 8 + keep * 4 + force * 2, om))); }
      return Verdict();
    }
    // model, operand by operand, on a copy of the initial world
    sim::World m = w0;
    bool warned = false, fatal = false;
    Bytes expect_stdout;
    int nop = (int)c.p.at("nop");
    std::vector<std::string> names;
    { const auto &av = c.runs[0].argv; for (size_t i = av.size() - nop; i < av.size(); i++) names.push_back(av[i]); }
    struct Want { std::string in, out; bool processed; Bytes content; unsigned mode; int64_t as, an, ms, mn; bool special; };
    std::vector<Want> wants;
    for (int i = 0; i < nop && !fatal; i++) {
      const std::string &name = names[i];
      Want wt; wt.in = name; wt.processed = false; wt.special = false;
      const sim::Inode *li = m.lookup(name);
      bool skip = false;
      if (!force) {
        if (!li) skip = true;
        else if (om == 0 && li->type != sim::T_REG) skip = true;
        else if (om == 0 && !keep && li->nlink > 1) skip = true;
      }
      if (!skip && !dec) { for (const char *s : {".bz2", ".tbz2", ".tbz", ".tz2"}) { size_t l = strlen(s); if (name.size() >= l && name.compare(name.size() - l, l, s) == 0) skip = true; } }
      // resolve for opening
      const sim::Inode *ti = li;
      if (!skip) {
        if (ti && ti->type == sim::T_LNK) ti = m.lookup(ti->data);
        if (!ti || ti->noread) skip = true;
        else if (ti->type == sim::T_DIR) { wt.special = true; }   // -c/-t on a directory: read fails -> outside the statement, do not judge this case
      }
      if (wt.special) { if (ctx.st) ctx.st->inc("oracle.outside_statement_skipped"); return Verdict(); }
      if (skip) { warned = true; wants.push_back(wt); continue; }
      Bytes content = ti->data;
      Bytes result;
      if (dec) { bz::DecResult d = bz::refdec(content); if (d.verdict != bz::V_VALID) { if (ctx.st) ctx.st->inc("oracle.outside_statement_skipped"); return Verdict(); } result = d.out; }
      if (om == 0) {
        std::string on = out_name(name, dec);
        if (on.empty()) { warned = true; wants.push_back(wt); continue; }   // open("") fails
        if (force) { auto it = m.dir.find(on); if (it != m.dir.end() && m.inodes[it->second].type != sim::T_DIR) { m.inodes[it->second].nlink--; m.dir.erase(it); } }
        if (m.exists(on)) { warned = true; wants.push_back(wt); continue; }   // O_EXCL: existing names (incl. dangling symlinks, directories) are never touched
        wt.out = on; wt.processed = true; wt.content = result;
        wt.mode = ti->mode & 0777; wt.as = ti->atime_s; wt.an = ti->atime_ns; wt.ms = ti->mtime_s; wt.mn = ti->mtime_ns;
        if (ti->mode & 07000) warned = true;     // "won't restore any of setuid, setgid, sticky"
        sim::Inode ni; ni.type = sim::T_REG; ni.created = true;
        m.add(on, ni);
        if (!keep) { auto it = m.dir.find(name); if (it != m.dir.end()) { m.inodes[it->second].nlink--; m.dir.erase(it); } }
      } else { wt.processed = true; wt.content = result; if (om == 1) expect_stdout += dec ? result : Bytes(); }
      wants.push_back(wt);
    }
    // compare
    int want_status = warned ? 4 : 0;
    if (!(a.kind == sim::X_EXIT && a.code == want_status))
      return Verdict::fail("status", "exit " + cls_of_exit(a) + ", documented rules give " + std::to_string(want_status) + " (" + c.data_desc + "; " + c.runs[0].brief() + ") stderr: " + a.err.substr(0, 300));
    if (warned && a.err.empty()) return Verdict::fail("no-warning", "an operand was skipped but nothing was printed on stderr");
    for (auto &wt : wants) {
      if (!wt.processed) continue;
      if (om == 0) {
        const sim::Inode *o = a.world.lookup(wt.out);
        if (!o) return Verdict::fail("no-output", "operand " + wt.in + ": expected output " + wt.out + " does not exist");
        if (dec) { if (o->data != wt.content) return Verdict::fail("wrong-output", "operand " + wt.in + ": " + wt.out + " does not hold the decompressed data"); }
        else { bz::LibResult l = bz::libbz2_decode(o->data); const sim::Inode *orig = w0.lookup(wt.in); const sim::Inode *t = orig && orig->type == sim::T_LNK ? w0.lookup(orig->data) : orig; if (!l.ok || !t || l.out != t->data) return Verdict::fail("wrong-output", "operand " + wt.in + ": " + wt.out + " does not decompress to the input"); }
        if ((o->mode & 0777) != wt.mode) { char b[128]; snprintf(b, sizeof b, "operand %s: output mode %o, input mode %o", wt.in.c_str(), o->mode & 07777, wt.mode); return Verdict::fail("mode", b); }
        if (o->mode & 07000) return Verdict::fail("mode", "output carries setuid/setgid/sticky");
        if (o->atime_s != wt.as || o->atime_ns != wt.an || o->mtime_s != wt.ms || o->mtime_ns != wt.mn) return Verdict::fail("times", "operand " + wt.in + ": access/modification times were not copied to " + wt.out);
        bool in_exists = a.world.exists(wt.in);
        if (keep && !in_exists) return Verdict::fail("input-removed", "-k given but " + wt.in + " was removed");
        if (!keep && in_exists) return Verdict::fail("input-kept", wt.in + " was not removed although neither -k, -c nor -t was given");
      } else if (!a.world.exists(wt.in)) return Verdict::fail("input-removed", "-c/-t given but " + wt.in + " was removed");
    }
    // everything that existed before and is not an admitted input/output must be untouched
    for (auto &kv : w0.dir) {
      bool is_processed_in = false, is_out = false;
      for (auto &wt : wants) { if (wt.processed && om == 0 && wt.in == kv.first) is_processed_in = true; if (wt.processed && wt.out == kv.first) is_out = true; }
      if (is_processed_in || is_out) continue;
      const sim::Inode *now = a.world.lookup(kv.first);
      const sim::Inode &was = w0.inodes[kv.second];
      if (!now) return Verdict::fail("file-removed", "existing file " + kv.first + " was removed although its operand was skipped / it is not an operand");
      if (now->data != was.data || now->type != was.type || (now->mode & 07777) != (was.mode & 07777)) return Verdict::fail("file-modified", "existing file " + kv.first + " was modified");
    }
    for (auto &kv : a.world.dir) if (!w0.exists(kv.first)) { bool exp = false; for (auto &wt : wants) if (wt.processed && wt.out == kv.first) exp = true; if (!exp) return Verdict::fail("unexpected-file", "unexpected new file " + kv.first); }
    if (om == 1 && dec && a.out != expect_stdout) return Verdict::fail("stdout", "-c output differs from the concatenated decompressed operands");
    if (ctx.st) {
      for (int i = 0; i < nop; i++) ctx.st->distinct("nontrivial", sim::fnv(sim::fnv(sim::fnv(dec * 8 + keep * 4 + force * 2, om), c.p.at("kind" + std::to_string(i)) * 10 + c.p.at("suffix" + std::to_string(i))), c.p.at("pre" + std::to_string(i))));
      ctx.st->inc(warned ? "kind.some-operand-skipped" : "kind.all-processed");
      add_sample(ctx, c, obs_json(a));
    }
    return Verdict();
  }
};
static Registrar r17(new C17);

// ===================================================================== C18
struct C18 : Driver {
  const char *prop() const override { return "C18"; }
  const char *level() const override { return "exploration"; }
  const char *variants(int) const override { return "plain ndebug/4 preempt/4"; }   // ndebug: assertion-free build = the shipped semantics; preempt: decision points inside unsynchronised code too
  uint64_t ncases(int tier) const override { return tier ? 300000 : 30000; }
  std::string rule() const override {
    return "case = 2-6 FILE operands mixing compressible, incompressible, empty, multi-block, skipped (compressed suffix, missing, hard-linked) and - for decompression - one corrupt operand at a random position; both directions, --sequential over-weighted (its tokens are statics that outlive a run), -k/-c random; with -c -d half of the lists also get -f and non-bzip2 operands that are copied through. "
           "The list is processed in ONE simulated invocation and again as one fresh invocation per operand, each under its own seeded schedule; oracle: per operand the same file-system effect and output bytes; combined status 4 if any operand was skipped with a warning else 0; "
           "with a corrupt operand status 1, earlier operands complete, later ones untouched. State leaking between operands also trips the conservation asserts / capacity monitors of the later run. distinct_nontrivial = distinct (direction, flags, operand-kind sequence)";
  }
  Case gen(uint64_t seed, int tier) const override {
    Rng rng(seed);
    Case c; c.prop = "C18";
    bool dec = rng.below(2), keep = rng.below(2), tostdout = rng.below(4) == 0, seq = !dec && rng.below(3) != 0;
    c.p["dec"] = dec; c.p["keep"] = keep; c.p["c"] = tostdout; c.p["seq"] = seq;
    int nop = 2 + (int)rng.below(5);
    c.p["nop"] = nop;
    int W = 1 + (int)rng.below(4);
    RunCfg r;
    r.argv = {"-n", std::to_string(W)};
    if (dec) r.argv.push_back("-d"); else r.argv.push_back("-1");
    if (seq) r.argv.push_back("-u");
    if (keep) r.argv.push_back("-k");
    if (tostdout) r.argv.push_back("-c");
    bool forcecopy = dec && tostdout && rng.below(2);      // -cdf: operands that are not bzip2 are copied through
    if (forcecopy) { r.argv.push_back("-f"); r.copy_granul = rng.below(3) ? (16u << rng.below(9)) : 0; }
    c.p["forcecopy"] = forcecopy;
    int corrupt_at = dec && !forcecopy && rng.below(3) == 0 ? (int)rng.below(nop) : -1;
    c.p["corrupt_at"] = corrupt_at;
    uint64_t kinds = 0;
    for (int i = 0; i < nop; i++) {
      int kind = (int)rng.below(10);   // 0 compressible 1 incompressible 2 empty 3 multi-block 4 suffix-skip 5 missing 6 hardlink 7 output-exists 8.. compressible
      if (i == corrupt_at) kind = 20;
      if (forcecopy && (kind == 6 || kind == 5)) kind = 0;        // with -f: no link-count skip; keep the model simple
      if (forcecopy && rng.below(2)) kind = 30;                    // a non-bzip2 operand, copied
      kinds = kinds * 23 + kind;
      Bytes plain;
      switch (kind) {
      case 1: plain = gen::random_bytes(rng, 200 + rng.below(5000), 256); break;
      case 2: plain = Bytes(); break;
      case 3: plain = gen::periodic(rng, 100000 + rng.below(tier ? 250000 : 140000)); break;
      default: plain = small_plain(rng, 4000); break;
      }
      std::string name = std::string(1, (char)('a' + i));
      FileSpec f;
      if (dec && kind == 30) { f.name = name + ".txt"; f.data = gen::random_bytes(rng, rng.below(3) ? rng.below(5000) : rng.below(200000), 256); if (f.data.size() >= 3 && f.data[0] == 'B' && f.data[1] == 'Z') f.data[0] = 'b'; }
      else if (dec) { f.name = name + (kind == 4 ? ".dat" : ".bz2"); f.data = lib_multistream(rng, plain, 1 + (int)rng.below(2)); if (kind == 20 && f.data.size() > 12) { size_t pos = 10 + rng.below(f.data.size() - 10); f.data[pos] ^= 0x20; if (rng.below(2)) f.data.resize(pos + 1); } }
      else { f.name = name + (kind == 4 ? ".bz2" : ".txt"); f.data = plain; }
      if (kind == 6) f.nlink_extra = 1;
      c.p["kind" + std::to_string(i)] = kind;
      if (kind != 5) c.files.push_back(f);
      if (kind == 7 && !tostdout) { FileSpec o; o.name = out_name(f.name, dec); o.data = "already there"; o.mode = 0600; c.files.push_back(o); }
      r.argv.push_back(f.name);
    }
    c.p["kinds"] = (int64_t)(kinds & 0x7fffffffffffffffull);
    r.sched = random_sched(rng);
    c.runs.push_back(r);
    for (int i = 0; i < nop; i++) { RunCfg s = r; s.argv.resize(r.argv.size() - nop); s.argv.push_back(r.argv[r.argv.size() - nop + i]); s.sched = random_sched(rng); s.set_workers(1 + (int)rng.below(4)); c.runs.push_back(s); }
    c.data_desc = std::string(dec ? "decompress " : "compress ") + std::to_string(nop) + " operands" + (seq ? " -u" : "") + (keep ? " -k" : "") + (tostdout ? " -c" : "") + (corrupt_at >= 0 ? " corrupt@" + std::to_string(corrupt_at) : "");
    return c;
  }
  Verdict eval(const Case &c, Ctx &ctx) const override {
    if (c.runs.size() < 2) return Verdict();
    int nop = (int)c.p.at("nop");
    if ((int)c.runs.size() != nop + 1) return Verdict();
    bool dec = c.p.at("dec"), tostdout = c.p.at("c");
    sim::Result all = exec(c.runs[0], Bytes(), c.files, ctx);
    if (Verdict v = global_monitors(all, "combined invocation"); !v.ok()) return v;
    // separate invocations, applied in sequence to an evolving file system (each one a fresh process)
    std::vector<FileSpec> fs = c.files;
    auto world_to_files = [](const sim::World &w) { std::vector<FileSpec> v; std::map<int, std::string> first; for (auto &kv : w.dir) { const sim::Inode &in = w.inodes[kv.second]; if (first.count(kv.second)) continue; first[kv.second] = kv.first; FileSpec f; f.name = kv.first; f.type = in.type; f.data = in.data; f.mode = in.mode; f.atime_s = in.atime_s; f.atime_ns = in.atime_ns; f.mtime_s = in.mtime_s; f.mtime_ns = in.mtime_ns; f.noread = in.noread; f.nlink_extra = in.nlink > 1 ? in.nlink - 1 : 0; v.push_back(f); } return v; };
    (void)world_to_files;
    sim::World sep = make_world(c.files);
    Bytes sep_stdout; bool any4 = false; int fatal_at = -1;
    for (int i = 0; i < nop; i++) {
      // run operand i alone on the ORIGINAL file system (operands are independent files), then merge its effect
      sim::Result one = exec(c.runs[1 + i], Bytes(), c.files, ctx);
      if (Verdict v = global_monitors(one, "separate invocation"); !v.ok()) return v;
      std::string in = c.runs[1 + i].argv.back(), out = out_name(in, dec);
      if (one.exited(1)) { fatal_at = i; break; }
      if (!(one.exited(0) || one.exited(4))) return Verdict::fail("separate-status", "separate invocation of " + in + " ended with " + one.describe());
      if (one.exited(4)) any4 = true;
      sep_stdout += one.out;
      // merge: names in, out (+ link names stay)
      for (const std::string &nm : {in, out}) {
        const sim::Inode *x = one.world.lookup(nm);
        auto it = sep.dir.find(nm);
        if (x) { if (it == sep.dir.end()) sep.add(nm, *x); else sep.inodes[it->second] = *x; }
        else if (it != sep.dir.end()) sep.dir.erase(it);
      }
    }
    // documented status rule, from the operand kinds (not from the separate runs)
    bool model_warn = false;
    for (int i = 0; i < nop; i++) {
      if (fatal_at >= 0 && i >= fatal_at) break;
      int k = (int)c.p.at("kind" + std::to_string(i));
      if (k == 5 || (k == 4 && !dec) || (k == 6 && !c.p.at("keep") && !tostdout) || (k == 7 && !tostdout)) model_warn = true;
      if (c.p.count("forcecopy") && c.p.at("forcecopy") && k == 5) model_warn = true;
    }
    if (fatal_at < 0 && model_warn != any4) return Verdict::fail("status-rule", std::string("separate invocations returned ") + (any4 ? "4" : "0") + " but the documented rule (4 iff an operand is skipped with a warning) gives " + (model_warn ? "4" : "0") + " (" + c.data_desc + ")");
    int want = fatal_at >= 0 ? 1 : any4 ? 4 : 0;
    if (!(all.kind == sim::X_EXIT && all.code == want))
      return Verdict::fail("status", "combined invocation ended with " + cls_of_exit(all) + ", separate invocations imply " + std::to_string(want) + " (" + c.data_desc + ") stderr: " + all.err.substr(0, 300));
    // per-name comparison (for a fatal operand: the operand itself must be rolled back, later ones untouched = as in sep, which never ran them)
    std::set<std::string> namesset;
    for (auto &kv : sep.dir) namesset.insert(kv.first);
    for (auto &kv : all.world.dir) namesset.insert(kv.first);
    for (auto &nm : namesset) {
      const sim::Inode *x = all.world.lookup(nm), *y = sep.lookup(nm);
      if (fatal_at >= 0) { std::string fin = c.runs[1 + fatal_at].argv.back(); if (nm == out_name(fin, dec)) { if (x) return Verdict::fail("fatal-output-left", "output " + nm + " of the corrupt operand remains"); continue; } }
      if (!x != !y) return Verdict::fail("fs-differs", "file " + nm + (x ? " exists only after the combined invocation" : " exists only after the separate invocations") + " (" + c.data_desc + ")");
      if (x && (x->data != y->data || (x->mode & 07777) != (y->mode & 07777))) return Verdict::fail("content-differs", "file " + nm + " differs between combined and separate invocations (" + c.data_desc + ")");
    }
    if (tostdout && fatal_at < 0 && all.out != sep_stdout) return Verdict::fail("stdout-differs", "-c output of the combined invocation is not the concatenation of the separate outputs");
    if (ctx.st) {
      ctx.st->distinct("nontrivial", sim::fnv(sim::fnv(dec * 16 + c.p.at("keep") * 8 + tostdout * 4 + c.p.at("seq"), c.p.at("kinds")), nop));
      ctx.st->inc(fatal_at >= 0 ? "kind.with-fatal-operand" : any4 ? "kind.with-skipped-operand" : "kind.all-processed");
      add_sample(ctx, c, obs_json(all));
    }
    return Verdict();
  }
};
static Registrar r18(new C18);

}  // namespace props
