// Helpers shared by the property drivers.
#pragma once
#include <signal.h>
#include "bz.h"
#include "core.h"
#include "gen.h"

namespace props {
using namespace core;

inline std::string cls_of_exit(const sim::Result &r) {
  char b[64];
  switch (r.kind) {
  case sim::X_EXIT: snprintf(b, sizeof b, "exit %d", r.code); break;
  case sim::X_SIGNAL: snprintf(b, sizeof b, "signal %d", r.code); break;
  case sim::X_DEADLOCK: snprintf(b, sizeof b, "deadlock"); break;
  case sim::X_BUDGET: snprintf(b, sizeof b, "step budget"); break;
  case sim::X_KILLED: snprintf(b, sizeof b, "killed"); break;
  default: snprintf(b, sizeof b, "monitor"); break;
  }
  return b;
}

// step budget: generous multiple of what the unchanged tree needs (calibrated, see evidence decision_steps_max_per_run)
inline uint64_t budget_for(size_t in_bytes, size_t in_gran, size_t out_bytes, size_t out_gran, size_t blocks) {
  uint64_t units = 1 + in_bytes / (in_gran ? in_gran : 1) + out_bytes / (out_gran ? out_gran : 1) + blocks;
  return 50000 + 400 * units;
}

// without -n the worker count comes from sysconf(_SC_NPROCESSORS_ONLN), which the plan's CPU count serves
inline void use_default_workers(RunCfg &c) {
  for (size_t i = 0; i + 1 < c.argv.size(); i++) if (c.argv[i] == "-n") { c.ncpu = atoi(c.argv[i + 1].c_str()); c.argv.erase(c.argv.begin() + i, c.argv.begin() + i + 2); return; }
}

// the process environment lbzip2 inherits: any subset of the four signals it handles may arrive blocked (it must unblock them itself)
inline void random_procenv(Rng &rng, RunCfg &c) {
  if (rng.below(10) == 0) { static const int sg[] = {SIGINT, SIGTERM, SIGUSR1, SIGUSR2}; for (int s : sg) if (rng.below(2)) c.inherit_mask |= 1ull << s; }
}

// the data as the second FILE operand; for compression the operand may still be growing while it is read (seeded change C04-4)
inline void as_second_operand(Rng &rng, RunCfg &c, size_t data_size, bool compress) {
  c.operand2 = true;
  if (compress && data_size > 1 && rng.below(3) == 0) { c.op2_visible = (int64_t)rng.below(data_size); c.op2_grow_at = (int)rng.below(4); }
}

// compression run configuration
inline RunCfg compress_cfg(Rng &rng, int level, bool seq, int W, bool vary_io) {
  RunCfg c;
  c.argv = {"-n", std::to_string(W), "-" + std::to_string(level)};
  if (seq) c.argv.push_back(rng.below(2) ? "-u" : "--sequential");
  c.sched = random_sched(rng);
  if (vary_io) {
    c.in_kind = rng.below(2) ? sim::K_PIPE : sim::K_FILE;
    c.in_frag = random_frag(rng);
    c.out_kind = rng.below(2) ? sim::K_PIPE : sim::K_FILE;
    if (rng.below(3) == 0) c.out_frag = random_frag(rng);
  }
  if (W >= 2 && rng.below(6) == 0) random_stall(rng, c.sched, 0);     // "slow node": a worker stalled while it holds a task
  random_procenv(rng, c);
  c.junk = (uint8_t)(1 + rng.below(255));
  return c;
}

// decompression run configuration; out_bytes_hint bounds how small output buffers may get
inline RunCfg decompress_cfg(Rng &rng, int W, bool knobs, size_t in_bytes, size_t out_bytes_hint) {
  RunCfg c;
  c.argv = {"-n", std::to_string(W), "-d"};
  c.sched = random_sched(rng);
  c.in_kind = rng.below(2) ? sim::K_PIPE : sim::K_FILE;
  c.in_frag = random_frag(rng);
  if (rng.below(3) == 0) c.out_frag = random_frag(rng);
  if (knobs) {
    static const size_t ig[] = {0, 0, 4, 4, 8, 12, 16, 20, 32, 64, 100, 128, 128, 132, 256, 256, 512, 1024, 4096, 65536};
    c.in_granul = ig[rng.below(sizeof ig / sizeof *ig)];
    // keep the number of input blocks bounded
    while (c.in_granul && in_bytes / c.in_granul > 20000) c.in_granul *= 4;
    if (rng.below(2)) {
      static const size_t og[] = {1, 2, 3, 5, 7, 16, 100, 1000, 4096, 65536, 100000};
      size_t g = og[rng.below(sizeof og / sizeof *og)];
      while (out_bytes_hint / g > 20000) g *= 4;
      c.out_granul = g;
    }
  }
  if (W >= 2 && rng.below(6) == 0) random_stall(rng, c.sched, 1);     // "slow node": a worker stalled while it holds a task
  random_procenv(rng, c);
  c.junk = (uint8_t)(1 + rng.below(255));
  return c;
}

// compress with libbz2 into `nstreams` concatenated streams (fast way to get real multi-block inputs)
inline Bytes lib_multistream(Rng &rng, const Bytes &plain, int pieces) {
  Bytes z;
  size_t n = plain.size();
  size_t off = 0;
  for (int i = 0; i < pieces; i++) {
    size_t len = i == pieces - 1 ? n - off : (size_t)rng.below(n - off + 1);
    z += bz::libbz2_encode(plain.substr(off, len), 1 + (int)rng.below(9));
    off += len;
  }
  return z;
}

inline std::string sample_json(const Case &c, const std::string &extra) {
  std::string s = "{\"prop\": " + json_str(c.prop) + ", \"case_seed\": " + std::to_string(c.seed & 0x7fffffffffffffffull) + ", \"input\": " + json_str(c.data_desc) + ", \"runs\": [";
  for (size_t i = 0; i < c.runs.size() && i < 8; i++) s += (i ? ", " : "") + json_str(c.runs[i].brief());
  s += "]";
  if (!extra.empty()) s += ", " + extra;
  s += "}";
  return s;
}
inline void add_sample(Ctx &ctx, const Case &c, const std::string &extra = "") {
  if (ctx.st && ctx.st->samples.size() < 3) ctx.st->samples.push_back(sample_json(c, extra));
}
inline std::string obs_json(const sim::Result &r) {
  return "\"observation\": " + json_str(r.describe().substr(0, 300));
}

}  // namespace props
