// Harness core: cases, run configurations, statistics, worker pool, shrinking,
// replay files, evidence.  DESIGN.md sections 3 and 6.
#pragma once
#include <cstdint>
#include <map>
#include <set>
#include <string>
#include <vector>
#include "sim.h"

namespace core {
using sim::Bytes;
using sim::Rng;

// ---------------------------------------------------------------- run configuration (serialisable)
struct FileSpec {
  std::string name;
  int type = sim::T_REG;
  Bytes data;                 // content or link target
  unsigned mode = 0644;
  unsigned nlink_extra = 0;   // additional hard links (names: name + ".lnk<i>")
  int64_t atime_s = 1500000000, atime_ns = 123456789, mtime_s = 1400000000, mtime_ns = 987654321;
  bool noread = false;
  int64_t visible = -1;       // growing-file fault: bytes present when the run starts (-1: the whole file)
  int grow_at = 0;            // index of the read() on this file at which the rest appears
};

struct RunCfg {
  std::vector<std::string> argv;          // without argv[0]
  std::string prog = "lbzip2";
  std::map<std::string, std::string> env;
  int ncpu = 4;
  unsigned umask = 022;                   // file mode creation mask
  int nofile = 1024;                      // descriptor limit of the simulated process
  uint64_t inherit_mask = 0;              // signals blocked in the inherited mask
  bool ign_pipe = false, ign_xfsz = false;
  size_t in_granul = 0, out_granul = 0, copy_granul = 0;
  int in_kind = sim::K_PIPE, out_kind = sim::K_PIPE;
  sim::Frag in_frag, out_frag, file_frag;
  int64_t out_close_after = -1, out_size_limit = -1;
  std::vector<sim::Fault> faults;
  std::vector<sim::SigEvent> sigs;
  sim::Sched sched;
  uint8_t junk = 0xA5;
  uint64_t step_budget = 0;
  int64_t op2_visible = -1; int op2_grow_at = 0;   // with operand2 (compression): the operand is still being appended to while lbzip2 reads it
  bool operand2 = false;                  // filter-style run turned into "lbzip2 [opts] <first> <f>": the data arrives as the SECOND FILE operand of the
                                          // invocation, after a small valid first one, and the result's `out` is the content of f's output file
                                          // (state a finished operand leaves behind must not matter: seeded changes C05-3, C02-3)
  int workers() const;                    // value of -n, 0 if absent
  void set_workers(int w);
  std::string brief() const;
};

struct Case {
  std::string prop;
  uint64_t seed = 0;
  std::map<std::string, int64_t> p;       // driver-specific parameters
  Bytes data;                             // primary input
  std::string data_desc;                  // how it was generated (information only)
  std::vector<FileSpec> files;            // initial file system (FILE-operand cases)
  std::vector<RunCfg> runs;
};

struct Verdict {
  std::string cls;            // "" = property held on this case
  std::string msg;
  std::string sig;            // signature for the known-findings file
  std::map<std::string, int64_t> narrow;   // enumeration drivers: parameters that select the failing sub-case
  bool ok() const { return cls.empty(); }
  static Verdict fail(const std::string &cls, const std::string &msg, const std::string &sig = "") { Verdict v; v.cls = cls; v.msg = msg; v.sig = sig.empty() ? cls : sig; return v; }
};

// ---------------------------------------------------------------- statistics
struct Stats {
  std::map<std::string, uint64_t> n;      // sums
  std::map<std::string, uint64_t> mx;     // maxima
  std::map<std::string, std::set<uint64_t>> d;   // distinct sets (capped)
  std::vector<std::string> samples;       // JSON objects
  void inc(const std::string &k, uint64_t v = 1) { n[k] += v; }
  void max(const std::string &k, uint64_t v) { auto &m = mx[k]; if (v > m) m = v; }
  void distinct(const std::string &k, uint64_t h) { auto &s = d[k]; if (s.size() < (1u << 21)) s.insert(h); }
  void merge(const Stats &o);
  void save(const std::string &path) const;
  bool load(const std::string &path);
  void absorb(const RunCfg &cfg, const sim::Result &r);
};

struct Ctx {
  Stats *st = nullptr;
  int tier = 0;                          // 0 quick, 1 thorough
  bool record = false;                   // keep recorded schedules of every run
  std::vector<std::vector<std::pair<uint32_t, uint32_t>>> recorded;
  std::vector<std::string> run_log;      // one line per simulated run (replay printing)
  bool verbose = false;
  uint64_t hash = 14695981039346656037ull;   // hash over all run histories of the case
};

// Execute one run; does the common accounting.
sim::Result exec(const RunCfg &cfg, const Bytes &stdin_data, const std::vector<FileSpec> &files, Ctx &ctx, bool trace = false);
sim::World make_world(const std::vector<FileSpec> &files);

// global monitors shared by every property: returns a failing verdict when the run hit
// a deadlock, the step budget, an assertion/abort, a simulator monitor or a sanitizer-style problem
Verdict global_monitors(const sim::Result &r, const char *what);

// ---------------------------------------------------------------- drivers
struct Driver {
  virtual ~Driver() {}
  virtual const char *prop() const = 0;
  virtual const char *level() const = 0;           // MANIFEST category
  virtual uint64_t ncases(int tier) const = 0;
  virtual Case gen(uint64_t seed, int tier) const = 0;
  virtual Verdict eval(const Case &c, Ctx &ctx) const = 0;
  virtual std::string rule() const = 0;
  virtual std::vector<std::string> assumptions() const { return {}; }
  virtual bool exhaustive() const { return false; }
  virtual std::string exhaustive_note() const { return ""; }
  virtual const char *variants(int tier) const { (void)tier; return "plain"; }   // space separated
};
Driver *find_driver(const std::string &prop);
std::vector<Driver *> &all_drivers();
struct Registrar { Registrar(Driver *d) { all_drivers().push_back(d); } };

// ---------------------------------------------------------------- replay files
std::string case_to_text(const Case &c, const Verdict &v, uint64_t hash);
bool case_from_text(const std::string &text, Case *c, Verdict *v, uint64_t *hash);
std::string hex(const Bytes &b);
Bytes unhex(const std::string &s);
std::string json_str(const std::string &s);

// ---------------------------------------------------------------- top level
int run_check(const std::string &prop, int tier, uint64_t seed, int jobs);
int run_replay(const std::string &path, bool gate);
int write_evidence(const std::string &prop, int tier, uint64_t master, const std::vector<std::string> &variants);
Case shrink(const Driver &d, const Case &c, const Verdict &v, int max_evals, int *evals_used);

uint64_t case_seed(uint64_t master, uint64_t index);
double now_s();

// shared random helpers for drivers
sim::Sched random_sched(Rng &rng, bool allow_spurious = true);
void random_stall(Rng &rng, sim::Sched &s, int mode);   // mode 0 compression tasks, 1 decompression tasks
sim::Frag random_frag(Rng &rng);
int random_workers(Rng &rng);

}  // namespace core
