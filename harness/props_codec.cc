// Drivers for the codec-facing properties: C02 C04 C05 C06 C07 C10 C15.
#include <algorithm>
#include "common.h"

namespace props {

// ===================================================================== C02 / C04 (compression side)
static Case gen_compress_case(uint64_t seed, int tier, const char *prop, bool boundary_bias) {
  Rng rng(seed);
  Case c; c.prop = prop;
  int level = tier == 0 ? (rng.below(6) ? 1 + (int)rng.below(2) : 1 + (int)rng.below(9)) : (rng.below(2) ? 1 + (int)rng.below(3) : 1 + (int)rng.below(9));
  bool seq = rng.below(2);
  c.p["level"] = level; c.p["seq"] = seq;
  size_t chunk = (size_t)level * 100000;
  if (boundary_bias && rng.below(3)) {
    // inputs whose run-length-encoded size crosses the capacity at an interesting item, possibly several chunks long
    Bytes d;
    int pieces = 1 + (int)rng.below(3);
    if (seq && rng.below(2)) d = gen::seq_edge(rng, level);
    else for (int i = 0; i < pieces; i++) d += gen::capacity_edge(rng, level, seq);
    if (rng.below(2)) d = gen::runs_around_limits(rng, rng.below(chunk), 2) + d;
    c.data = d; c.data_desc = "capacity-edge x" + std::to_string(pieces) + " " + std::to_string(d.size()) + "B";
  } else c.data = gen::input(rng, level, tier ? std::min<size_t>(3 * chunk, 2500000) : std::min<size_t>(2 * chunk + 5000, 450000), &c.data_desc);
  if (c.data.size() > 2800000) c.data.resize(2800000);
  c.runs.push_back(compress_cfg(rng, level, seq, boundary_bias ? 1 + (int)rng.below(8) : random_workers(rng), true));
  if (rng.below(6) == 0) as_second_operand(rng, c.runs.back(), c.data.size(), true);      // the input as the second FILE operand (possibly still growing while it is read) of the invocation (stream assembly state such as the combined CRC must start afresh)
  return c;
}

struct C02 : Driver {
  const char *prop() const override { return "C02"; }
  const char *level() const override { return "exploration"; }
  const char *variants(int) const override { return "plain preempt/6"; }   // preempt: decision points inside unsynchronised code too (seeded change C02-4)
  uint64_t ncases(int tier) const override { return tier ? 250000 : 24000; }
  std::string rule() const override {
    return "case = (generated input, level 1-9, mode, -n, schedule, I/O fragmentation) compressed in the simulator; the output is parsed bit by bit by the independent strict inspector "
           "(header digit = level, no randomised block, every block <= level*100000 run-length-encoded bytes, primary index inside, 2-6 tables all complete incl. unused ones, lengths 1-20, <= 18002 selectors, "
           "block CRCs and the order-sensitive combined CRC correct) and decoded by libbz2 to the input. The simulator decides the schedule-dependent part (stream assembly, combined CRC order); per-block facts are input sampling. "
           "distinct_nontrivial = distinct (input digest, level, mode) with >= 1 block";
  }
  Case gen(uint64_t seed, int tier) const override { return gen_compress_case(seed, tier, "C02", false); }
  Verdict eval(const Case &c, Ctx &ctx) const override {
    if (c.runs.empty()) return Verdict();
    RunCfg r = c.runs[0];
    r.step_budget = budget_for(c.data.size(), 100000, c.data.size(), 100000, 4);
    int level = (int)c.p.at("level");
    sim::Result a = exec(r, c.data, {}, ctx);
    if (Verdict v = global_monitors(a, "compression"); !v.ok()) return v;
    if (!a.exited(0)) return Verdict::fail("compress-status", "compression ended with " + a.describe());
    bz::DecResult d = bz::refdec(a.out);
    std::string why = bz::inspect(d, level);
    if (!why.empty()) return Verdict::fail("malformed-stream", "strict inspector: " + why, "malformed:" + why.substr(0, 40));
    if (d.out != c.data) return Verdict::fail("wrong-content", "reference decoder output differs from the input");
    bz::LibResult l = bz::libbz2_decode(a.out);
    if (!l.ok) return Verdict::fail("libbz2-rejects", "libbz2 rejects lbzip2's output with status " + std::to_string(l.err));
    if (l.out != c.data) return Verdict::fail("wrong-content", "libbz2 decodes lbzip2's output to different bytes");
    if (ctx.st) {
      size_t nb = d.streams[0].blocks.size();
      if (nb) ctx.st->distinct("nontrivial", sim::fnv(sim::hash_bytes(c.data.data(), c.data.size()), level * 2 + c.p.at("seq")));
      ctx.st->inc("oracle.blocks_inspected", nb);
      for (auto &b : d.streams[0].blocks) { ctx.st->max("oracle.max_nblock", b.nblock); ctx.st->max("oracle.max_selectors", b.nselectors); ctx.st->max("oracle.max_code_length", b.maxlen);
        for (unsigned t = 0; t < b.ntables; t++) if (!b.table_used[t]) ctx.st->inc("oracle.unused_tables_checked"); }
      add_sample(ctx, c, "\"blocks\": " + std::to_string(nb));
    }
    return Verdict();
  }
};
static Registrar r02(new C02);

struct C04 : Driver {
  const char *prop() const override { return "C04"; }
  const char *level() const override { return "exploration"; }
  const char *variants(int) const override { return "plain preempt/6"; }
  uint64_t ncases(int tier) const override { return tier ? 80000 : 6000; }
  std::string rule() const override {
    return "case = boundary-biased input (run structures whose run-length-encoded size lands on capacity-3..capacity+3, runs straddling chunk boundaries, runs around 4/255/259) compressed at level L in default or --sequential mode, -n 1..8, seeded schedule; "
           "each block of the output is decoded separately by the reference decoder, which yields the input offsets where blocks end and each block's run-length-encoded size; oracle: offsets equal the 40-line greedy packing model "
           "(whole input for --sequential, per L*100000-byte piece otherwise) and every size <= L*100000. In --sequential mode the boundaries are produced by the token-passing chain across chunks and workers (schedule-dependent); "
           "in default mode they are a function of the input (input sampling). The per-call API with arbitrary buffer splits is not driven. distinct_nontrivial = distinct (input digest, level, mode) with >= 2 blocks";
  }
  Case gen(uint64_t seed, int tier) const override { return gen_compress_case(seed, tier, "C04", true); }
  Verdict eval(const Case &c, Ctx &ctx) const override {
    if (c.runs.empty()) return Verdict();
    RunCfg r = c.runs[0];
    r.step_budget = budget_for(c.data.size(), 100000, c.data.size(), 100000, 4);
    int level = (int)c.p.at("level"); bool seq = c.p.at("seq");
    sim::Result a = exec(r, c.data, {}, ctx);
    if (Verdict v = global_monitors(a, "compression"); !v.ok()) return v;
    if (!a.exited(0)) return Verdict::fail("compress-status", "compression ended with " + a.describe());
    bz::DecResult d = bz::refdec(a.out);
    if (d.verdict != bz::V_VALID || d.streams.size() != 1 || d.out != c.data) return Verdict::fail("not-decodable", "output is not a valid single stream decoding to the input: " + d.reason);
    std::vector<size_t> got;
    size_t cap = (size_t)level * 100000;
    for (auto &b : d.streams[0].blocks) {
      got.push_back(b.out_off + b.out_len);
      if (b.nblock > cap) return Verdict::fail("block-too-large", "a block holds " + std::to_string(b.nblock) + " run-length-encoded bytes, capacity " + std::to_string(cap));
    }
    std::vector<size_t> want = bz::pack_model(c.data, cap, seq, cap);
    if (got != want) {
      size_t i = 0; while (i < got.size() && i < want.size() && got[i] == want[i]) i++;
      char b[256];
      snprintf(b, sizeof b, "block %zu ends at input offset %lld, greedy packing says %lld (%zu blocks vs %zu in the model; level %d, %s mode)", i, i < got.size() ? (long long)got[i] : -1ll, i < want.size() ? (long long)want[i] : -1ll, got.size(), want.size(), level, seq ? "sequential" : "default");
      return Verdict::fail("boundary-differs", b);
    }
    if (ctx.st) {
      if (got.size() >= 2) ctx.st->distinct("nontrivial", sim::fnv(sim::hash_bytes(c.data.data(), c.data.size()), level * 2 + seq));
      ctx.st->inc("oracle.blocks_compared", got.size());
      for (auto &b : d.streams[0].blocks) { if (b.nblock + 3 >= cap) ctx.st->inc("oracle.blocks_within_3_of_capacity"); if (b.nblock == cap) ctx.st->inc("oracle.blocks_exactly_full"); }
      ctx.st->inc(seq ? "kind.sequential" : "kind.default-mode");
      add_sample(ctx, c, "\"block_ends\": " + std::to_string(got.size()));
    }
    return Verdict();
  }
};
static Registrar r04(new C04);

// ===================================================================== decompression inputs
// Generates a compressed (or damaged) file.  weights: 0 valid only, 1 mostly defects/mutations, 2 mixed
static Bytes gen_dec_input(Rng &rng, int tier, int flavour, std::string *desc) {
  int k = (int)rng.below(100);
  Bytes z;
  auto valid_stream = [&](std::string *d) {
    if (rng.below(4) == 0) {
      std::string dd; Bytes plain = gen::input(rng, 1 + (int)rng.below(2), tier ? 400000 : 120000, &dd);
      *d = "libbz2(" + dd + ")";
      return lib_multistream(rng, plain, 1 + (int)rng.below(3));
    }
    auto specs = bz::random_specs(rng, 3, 6, tier ? 6000 : 2500, 0);
    Bytes tr; if (rng.below(3) == 0) tr = bz::random_trailing(rng);
    bz::GenOut g = bz::genstream(specs, tr, rng);
    *d = "genstream valid" + std::string(tr.empty() ? "" : " +trailing");
    return g.bytes;
  };
  if (flavour == 0 || (flavour == 2 && k < 45) || (flavour == 1 && k < 15)) return valid_stream(desc);
  if (k < 60) {   // one structural defect
    auto specs = bz::random_specs(rng, 3, 5, 2500, 256);
    bz::GenOut g = bz::genstream(specs, rng.below(4) ? Bytes() : bz::random_trailing(rng), rng);
    *desc = "genstream defect " + g.defects;
    return g.bytes;
  }
  if (k < 75) {   // byte/bit level mutation of a valid stream
    std::string d; z = valid_stream(&d);
    int muts = 1 + (int)rng.below(3);
    for (int m = 0; m < muts && !z.empty(); m++) {
      size_t pos = rng.below(z.size());
      switch (rng.below(5)) {
      case 0: z[pos] ^= (char)(1u << rng.below(8)); break;
      case 1: z[pos] = (char)rng.below(256); break;
      case 2: z.erase(pos, 1 + rng.below(4)); break;
      case 3: z.insert(pos, 1, (char)rng.below(256)); break;
      default: if (pos + 4 < z.size()) { z[pos] = 0; z[pos + 1] = 0; z[pos + 2] = 0; z[pos + 3] = 0; } break;
      }
    }
    *desc = "mutated " + d;
    return z;
  }
  if (k < 88) {   // truncation
    std::string d; z = valid_stream(&d);
    if (!z.empty()) z.resize(rng.below(z.size()));
    *desc = "truncated " + d;
    return z;
  }
  if (k < 92) { *desc = "empty"; return Bytes(); }
  if (k < 96) { size_t n = rng.below(200); for (size_t i = 0; i < n; i++) z.push_back((char)rng.below(256)); *desc = "garbage"; return z; }
  {   // header only / wrong magic variants
    static const char *h[] = {"BZh9", "BZh1", "BZh0", "BZh", "BZ", "B", "bZh9", "BZH9", "BZh91AY&SY", "BZh9\x17rE8P\x90", "BZh9\x17rE8P\x90\0\0\0", "BZh9\x17rE8P\x90\0\0\0\0"};
    static const size_t hl[] = {4, 4, 4, 3, 2, 1, 4, 4, 10, 10, 13, 14};
    int i = (int)rng.below(12);
    *desc = "header-variant " + std::to_string(i);
    return Bytes(h[i], hl[i]);
  }
}

struct DecOracle { bz::DecResult d; bool uncertain = false; std::string why; bool lib_rejects = false; };
static DecOracle dec_oracle(const Bytes &z) {
  DecOracle o;
  o.d = bz::refdec(z);
  if (o.d.verdict == bz::V_UNCERTAIN) { o.uncertain = true; o.why = o.d.reason; return o; }
  bz::LibResult l = bz::libbz2_decode(z);
  o.lib_rejects = !l.ok;
  if (o.d.verdict == bz::V_VALID) {
    if (l.ok && l.out != o.d.out) { o.uncertain = true; o.why = "refdec and libbz2 decode to different bytes"; }
    if (!l.ok && o.d.trailing == 0) { o.uncertain = true; o.why = "refdec accepts, libbz2 rejects"; }
  } else if (o.d.verdict == bz::V_INVALID && l.ok) { o.uncertain = true; o.why = "libbz2 accepts what refdec rejects: " + o.d.reason; }
  return o;
}

// one decompression run of `z` in a random configuration; fileop: 0 stdin->stdout, 1 FILE operand
static RunCfg dec_cfg_for(Rng &rng, const Bytes &z, size_t out_hint, bool allow_operand, bool cleanup_fault = false) {
  RunCfg r = decompress_cfg(rng, random_workers(rng), true, z.size(), out_hint + 1);
  if (allow_operand && rng.below(5) == 0) {
    if (rng.below(3) == 0) r.argv.push_back("g.bz2");     // the input under test is the SECOND operand of the invocation: state left behind by a successful first one must not matter (seeded change C05-3)
    else if (cleanup_fault && rng.below(3) == 0) {     // (C07 only: the input is invalid, so the first unlink is the one in cleanup()) the removal of the partial output inside cleanup() fails (read-only directory, file gone): lbzip2 must still end with status 1 (seeded change C07-4)
      sim::Fault ft; ft.call = sim::C_UNLINK; ft.role = sim::R_ANY; ft.k = 0; ft.err = rng.below(2) ? EACCES : ENOENT;
      r.faults.push_back(ft);
    }
    r.argv.push_back("f.bz2");
  }
  return r;
}
struct DecRun { sim::Result r; Bytes out; bool operand = false; bool out_file_exists = false; bool in_file_intact = true; };
static DecRun run_dec(const RunCfg &cfg, const Bytes &z, size_t out_hint, Ctx &ctx) {
  DecRun x;
  RunCfg r = cfg;
  x.operand = !r.argv.empty() && r.argv.back() == "f.bz2";
  std::vector<FileSpec> files;
  if (x.operand) { FileSpec f; f.name = "f.bz2"; f.data = z; files.push_back(f); }
  if (x.operand && std::find(r.argv.begin(), r.argv.end(), "g.bz2") != r.argv.end()) {
    static const Bytes first = bz::libbz2_encode(Bytes("the first operand of this invocation is a small valid file\n"), 3);
    FileSpec g; g.name = "g.bz2"; g.data = first; files.push_back(g);
  }
  // keep the number of output buffers bounded: a mutated 208-byte stream can expand to 26 MB, which with 1-byte output buffers is
  // 143 million decision steps (45 s) for nothing; out_hint is the reference decoder's output size, so this is a function of the case
  while (r.out_granul && out_hint / r.out_granul > 50000) r.out_granul *= 4;
  r.step_budget = budget_for(z.size(), r.in_granul ? r.in_granul : 262144, out_hint + 1000, r.out_granul ? r.out_granul : 900000, 100);
  x.r = exec(r, x.operand ? Bytes() : z, files, ctx);
  if (x.operand) {
    const sim::Inode *o = x.r.world.lookup("f");
    x.out_file_exists = o != nullptr;
    if (o) x.out = o->data;
    const sim::Inode *i = x.r.world.lookup("f.bz2");
    x.in_file_intact = i && i->data == z;
  } else x.out = x.r.out;
  return x;
}

// ===================================================================== C05
struct C05 : Driver {
  const char *prop() const override { return "C05"; }
  const char *level() const override { return "exploration"; }
  const char *variants(int) const override { return "plain ndebug/4"; }   // ndebug: assertion-free build = the shipped semantics; preempt: decision points inside unsynchronised code too
  uint64_t ncases(int tier) const override { return tier ? 500000 : 40000; }
  std::string rule() const override {
    return "case = one byte string (structured streams from a generator that exposes every degree of freedom, with one planted defect per field kind: delta step leaving 1-20 upwards/downwards/at the start value, selector = table count, "
           "zero selectors, 1 or 7 tables, empty bitmap, primary index = or > block size, missing end-of-block, wrong block/stream CRC, bad magic, used/unused incomplete or oversubscribed tables, missing run length, block one to three bytes over its declared size; "
           "bit/byte mutations; truncations; header variants; garbage; libbz2 output) decompressed in 2 random configurations (-n, schedule, input block size from 4 bytes, output buffer size from 1 byte, fragmentation, stdin or FILE operand). "
           "one-sided oracle: lbzip2 exit 0 => the strict reference decoder calls the input valid (every delta step in 1-20, CRCs, block size, primary index, trailing-data rule) and the bytes equal its decoding. "
           "Inputs on which the reference decoder and libbz2 disagree outside the documented list are skipped and counted as oracle-uncertain. distinct_nontrivial = distinct input digests with a complete stream header";
  }
  std::vector<std::string> assumptions() const override { return {"the reference decoder refdec encodes the bzip2 1.0.x rules named in the property; it is cross-checked against libbz2 1.0.8 on every case (selftest-oracle: 0 disagreements)"}; }
  Case gen(uint64_t seed, int tier) const override {
    Rng rng(seed);
    Case c; c.prop = "C05";
    if (rng.below(tier ? 600 : 2500) == 0) {
      int level = 1 + (int)rng.below(9);
      size_t n = (size_t)level * 100000 + 1 + rng.below(2);     // one or two bytes more than the declared size allows
      c.data = bz::gen_full_block(rng, n, level, false).bytes;
      c.data_desc = "overfull block " + std::to_string(n) + " symbols, level " + std::to_string(level);
    } else c.data = gen_dec_input(rng, tier, 1, &c.data_desc);
    size_t hint = c.data.size() * 20 + 1000;
    for (int k = 0; k < 2; k++) c.runs.push_back(dec_cfg_for(rng, c.data, hint, true));
    return c;
  }
  Verdict eval(const Case &c, Ctx &ctx) const override {
    DecOracle o = dec_oracle(c.data);
    if (o.uncertain) { if (ctx.st) ctx.st->inc("oracle.uncertain_skipped"); return Verdict(); }
    for (auto &cfg : c.runs) {
      DecRun x = run_dec(cfg, c.data, o.d.out.size(), ctx);
      if (!x.r.exited(0)) continue;       // the one-sided oracle only speaks about accepted inputs
      if (o.d.verdict == bz::V_INVALID)
        return Verdict::fail("accepted-invalid", "lbzip2 -d exited 0 on an input the reference decoder rejects (" + o.d.reason + "); " + cfg.brief(), "accepted-invalid:" + o.d.reason);
      // documented exceptions: lbzip2 is allowed to reject them; accepting is fine only where bzip2 1.0.x (libbz2 1.0.8) accepts too
      if (o.d.verdict == bz::V_EXCEPTION && o.lib_rejects)
        return Verdict::fail("accepted-invalid", "lbzip2 -d exited 0 on an input that libbz2 1.0.8 rejects (" + o.d.reason + "); " + cfg.brief(), "accepted-invalid:" + o.d.reason);
      if (x.out != o.d.out && !(x.operand && !x.out_file_exists))
        return Verdict::fail("wrong-bytes", "lbzip2 -d exited 0 but wrote " + std::to_string(x.out.size()) + " bytes that differ from the reference decoding (" + std::to_string(o.d.out.size()) + " bytes); " + cfg.brief());
    }
    if (ctx.st) {
      if (c.data.size() >= 4) ctx.st->distinct("nontrivial", sim::hash_bytes(c.data.data(), c.data.size()));
      ctx.st->inc(std::string("oracle.refdec_") + (o.d.verdict == bz::V_VALID ? "valid" : o.d.verdict == bz::V_INVALID ? "invalid" : "documented_exception"));
      if (o.d.verdict == bz::V_INVALID) ctx.st->inc("oracle.invalid_reason." + o.d.reason);
      ctx.st->inc("kind." + c.data_desc.substr(0, c.data_desc.find(' ', c.data_desc.find(' ') + 1)));
      add_sample(ctx, c, "\"refdec\": " + json_str(o.d.verdict == bz::V_VALID ? "valid" : o.d.reason));
    }
    return Verdict();
  }
};
static Registrar r05(new C05);

// ===================================================================== C06
struct C06 : Driver {
  const char *prop() const override { return "C06"; }
  const char *level() const override { return "exploration"; }
  const char *variants(int) const override { return "plain ndebug/4"; }   // ndebug: assertion-free build = the shipped semantics; preempt: decision points inside unsynchronised code too
  uint64_t ncases(int tier) const override { return tier ? 300000 : 24000; }
  std::string rule() const override {
    return "case = one valid file: generated streams varying every legal degree of freedom (2-6 arbitrary complete tables incl. 20-bit codes, arbitrary selector sequences, surplus selectors up to 32767, zig-zag delta paths touching 1 and 20, "
           "any legal start length, randomised blocks, unused incomplete/oversubscribed tables, extra in-use symbols, blocks at any bit offset, 1-3 concatenated streams with different levels, empty streams, trailing data that does not start with a full header) "
           "and libbz2 output at levels 1-9, decompressed in 2 random configurations; oracle: the reference decoder says valid (and not a documented exception) => exit 0, stderr empty, bytes = known plaintext. "
           "Thorough adds large cases (899999 primary index, 900000-byte blocks). distinct_nontrivial = distinct input digests with >= 1 block";
  }
  Case gen(uint64_t seed, int tier) const override {
    Rng rng(seed);
    Case c; c.prop = "C06";
    if (rng.below(tier ? 400 : 1000) == 0) {
      // the largest legal blocks: exactly level*100000 (or a few fewer) decoded bytes from as many non-run symbols,
      // i.e. every one of the 18001 coding groups at level 9; primary index at the very end half of the time
      int level = rng.below(2) ? 9 : 1 + (int)rng.below(9);
      size_t n = (size_t)level * 100000 - (rng.below(2) ? 0 : rng.below(60));
      bool rnd = rng.below(3) == 0;      // legacy randomised flag on a full-size block
      c.data = bz::gen_full_block(rng, n, level, rng.below(2), rnd).bytes;
      c.data_desc = std::string(rnd ? "randomised " : "") + "full block " + std::to_string(n) + " symbols, level " + std::to_string(level);
    } else if (tier && rng.below(400) == 0) {
      Bytes p = gen::random_bytes(rng, 899990 + rng.below(11), 2 + (unsigned)rng.below(3));
      c.data = bz::libbz2_encode(p, 9); c.data_desc = "libbz2 full level-9 block";
    } else if (rng.below(12) == 0) {
      // conforming files that happen to contain the block-header pattern where no block starts (C10's generator; only the valid ones
      // are judged here): such a file is as conforming as any other (seeded change C06-3)
      int pk = 0; c.data = bz::gen_planted(rng, &pk).bytes; c.data_desc = "planted-pattern kind " + std::to_string(pk);
      c.p["planted"] = 1;
    } else c.data = gen_dec_input(rng, tier, 0, &c.data_desc);
    size_t hint = c.data.size() * 20 + 1000;
    for (int k = 0; k < 2; k++) c.runs.push_back(dec_cfg_for(rng, c.data, hint, true));
    if (c.p.count("planted")) for (auto &r : c.runs) { static const size_t ig[] = {8, 16, 32, 64, 128, 256, 1024}; r.in_granul = ig[rng.below(7)]; if (r.workers() < 2) r.set_workers(2 + (int)rng.below(5)); }
    return c;
  }
  Verdict eval(const Case &c, Ctx &ctx) const override {
    DecOracle o = dec_oracle(c.data);
    if (o.uncertain) { if (ctx.st) ctx.st->inc("oracle.uncertain_skipped"); return Verdict(); }
    if (o.d.verdict != bz::V_VALID) { if (ctx.st) ctx.st->inc("oracle.not_valid_skipped"); return Verdict(); }
    for (auto &cfg : c.runs) {
      DecRun x = run_dec(cfg, c.data, o.d.out.size(), ctx);
      if (Verdict v = global_monitors(x.r, "decompression of a valid file"); !v.ok()) return v;
      if (!x.r.exited(0)) return Verdict::fail("rejected-valid", "a conforming file was not accepted: " + x.r.describe() + "; " + cfg.brief());
      if (!x.r.err.empty()) return Verdict::fail("stderr", "decompression of a conforming file printed: " + x.r.err.substr(0, 200));
      if (x.operand && !x.out_file_exists) return Verdict::fail("no-output-file", "exit 0 but no output file; " + cfg.brief());
      if (x.out != o.d.out) return Verdict::fail("wrong-bytes", "decoded " + std::to_string(x.out.size()) + " bytes differ from the plaintext (" + std::to_string(o.d.out.size()) + " bytes); " + cfg.brief());
    }
    if (ctx.st) {
      size_t nb = 0; bool rnd = false, zig = false, surplus = false, deep = false, unaligned = false;
      for (auto &s : o.d.streams) for (auto &b : s.blocks) { nb++; rnd |= b.randomised; zig |= b.zigzag; surplus |= b.nselectors > b.ngroups_used; deep |= b.maxlen == 20; unaligned |= (b.bitpos % 8) != 0; }
      if (nb) ctx.st->distinct("nontrivial", sim::hash_bytes(c.data.data(), c.data.size()));
      ctx.st->inc("oracle.blocks", nb);
      if (rnd) ctx.st->inc("oracle.files_with_randomised_block"); if (zig) ctx.st->inc("oracle.files_with_zigzag_delta"); if (surplus) ctx.st->inc("oracle.files_with_surplus_selectors");
      if (deep) ctx.st->inc("oracle.files_with_20bit_code"); if (unaligned) ctx.st->inc("oracle.files_with_unaligned_block"); if (o.d.streams.size() > 1) ctx.st->inc("oracle.files_multistream");
      if (o.d.trailing) ctx.st->inc("oracle.files_with_trailing_data");
      add_sample(ctx, c, "\"blocks\": " + std::to_string(nb));
    }
    return Verdict();
  }
};
static Registrar r06(new C06);

// ===================================================================== C07
struct C07 : Driver {
  const char *prop() const override { return "C07"; }
  const char *level() const override { return "fault_enumeration"; }
  const char *variants(int) const override { return "plain ndebug/4"; }   // ndebug: assertion-free build = the shipped semantics; preempt: decision points inside unsynchronised code too
  uint64_t ncases(int tier) const override { return tier ? 150000 : 12000; }
  bool exhaustive() const override { return true; }
  std::string exhaustive_note() const override { return "every truncation length 0..len-1 of each listed small valid multi-block/multi-stream file (about 1 in 125 cases: ~96 files quick, ~1000 thorough), each under 3 schedules x 2 input block sizes; corruptions and configurations are sampled"; }
  std::string rule() const override {
    return "two case kinds. (a) storage faults enumerated: a small valid file (<= ~1.5 KB, 1-3 streams, several blocks) is cut at EVERY length and each prefix is decompressed under 3 seeded configurations alternating default and tiny input blocks, so end-of-file meets the zero padding at every alignment. "
           "(b) sampled: structurally defective, mutated, truncated, empty, header-only and garbage inputs in 2 random configurations incl. FILE operands. oracle for inputs the reference decoder rejects: exit status exactly 1, diagnostic on stderr, no deadlock / step-budget overrun / assertion / death by signal, "
           "and with a FILE operand no output file remains and the input is intact. The error is raised by whichever worker runs the parser/retriever/re-orderer while other threads are mid-flight; the main thread must still win. distinct_nontrivial = distinct invalid input digests";
  }
  Verdict eval(const Case &c, Ctx &ctx) const override;
  // the case kind is drawn from the seed: about 1 in 125 cases (quick) is an exhaustive truncation sweep of one
  // small file, which keeps the wall time of the workers balanced
  Case gen(uint64_t seed, int tier) const override {
    Rng rng(seed);
    Case c; c.prop = "C07";
    bool sweep = rng.below(tier ? 150 : 125) == 0;
    c.p["sweep"] = sweep; c.p["only"] = -1;
    if (sweep) {
      auto specs = bz::random_specs(rng, 3, 3, 160, 0);
      for (auto &s : specs) for (auto &b : s.blocks) { b.nsel_surplus = std::min(b.nsel_surplus, 20); if (b.plain.size() > 200) b.plain.resize(200); }
      Bytes tr; if (rng.below(4) == 0) tr = bz::random_trailing(rng);
      c.data = bz::genstream(specs, tr, rng).bytes;
      if (c.data.size() > 1600) c.data = bz::genstream(bz::random_specs(rng, 2, 2, 60, 0), Bytes(), rng).bytes;
      c.data_desc = "valid file for the truncation sweep, " + std::to_string(c.data.size()) + "B";
      for (int k = 0; k < 3; k++) {
        RunCfg r = decompress_cfg(rng, 1 + (int)rng.below(4), false, c.data.size(), 4000);
        r.in_granul = k == 0 ? 0 : (k == 1 ? 8 : 4u << rng.below(5));
        c.runs.push_back(r);
      }
    } else {
      c.data = gen_dec_input(rng, tier, 1, &c.data_desc);
      size_t hint = c.data.size() * 20 + 1000;
      for (int k = 0; k < 2; k++) c.runs.push_back(dec_cfg_for(rng, c.data, hint, true, true));
    }
    return c;
  }
};
static Verdict judge_invalid(const DecRun &x, const RunCfg &cfg, const std::string &reason) {
  if (Verdict v = global_monitors(x.r, "decompression of an invalid file"); !v.ok()) return v;
  if (x.r.kind != sim::X_EXIT) return Verdict::fail("died", "invalid input (" + reason + ") ended with " + x.r.describe() + "; " + cfg.brief());
  if (x.r.code != 1) return Verdict::fail(x.r.code == 0 ? "accepted-invalid" : "wrong-status", "invalid input (" + reason + ") ended with exit status " + std::to_string(x.r.code) + " instead of 1; " + cfg.brief(), x.r.code == 0 ? "accepted-invalid:" + reason : "wrong-status");
  if (x.r.err.empty()) return Verdict::fail("no-diagnostic", "invalid input (" + reason + ") rejected without a diagnostic on stderr; " + cfg.brief());
  bool unlink_failed = false;
  for (auto &ft : x.r.faults) if (ft.fired && ft.call == sim::C_UNLINK) unlink_failed = true;
  if (x.operand && x.out_file_exists && !unlink_failed) return Verdict::fail("output-left-behind", "invalid FILE operand (" + reason + "): output file f remains after exit 1; " + cfg.brief());
  if (x.operand && !x.in_file_intact) return Verdict::fail("input-lost", "invalid FILE operand (" + reason + "): the input file is gone or changed; " + cfg.brief());
  return Verdict();
}
Verdict C07::eval(const Case &c, Ctx &ctx) const {
  if (c.p.count("sweep") && c.p.at("sweep")) {
    int64_t only = c.p.at("only");
    size_t from = only >= 0 ? (size_t)only : 0, to = only >= 0 ? (size_t)only + 1 : c.data.size();
    if (to > c.data.size()) to = c.data.size();
    for (size_t len = from; len < to; len++) {
      Bytes z = c.data.substr(0, len);
      bz::DecResult d = bz::refdec(z);
      if (d.verdict != bz::V_INVALID) { if (ctx.st) ctx.st->inc("oracle.prefix_is_itself_valid"); continue; }   // e.g. cut inside ignored trailing data
      for (size_t k = 0; k < c.runs.size(); k++) {
        RunCfg r = c.runs[k];
        r.sched.seed = sim::mix64(r.sched.seed, len);
        DecRun x = run_dec(r, z, d.out.size() + 4000, ctx);
        Verdict v = judge_invalid(x, r, d.reason);
        if (!v.ok()) { v.msg = "truncated to " + std::to_string(len) + " of " + std::to_string(c.data.size()) + " bytes: " + v.msg; v.narrow["only"] = (int64_t)len; return v; }
        if (ctx.st) { ctx.st->inc("fault_fired.truncation"); ctx.st->distinct("nontrivial", sim::fnv(sim::hash_bytes(z.data(), z.size()), k)); }
      }
    }
    if (ctx.st) { ctx.st->inc("kind.truncation-sweep-files"); add_sample(ctx, c); }
    return Verdict();
  }
  DecOracle o = dec_oracle(c.data);
  if (o.uncertain) { if (ctx.st) ctx.st->inc("oracle.uncertain_skipped"); return Verdict(); }
  if (o.d.verdict != bz::V_INVALID) { if (ctx.st) ctx.st->inc("oracle.not_invalid_skipped"); return Verdict(); }
  for (auto &cfg : c.runs) {
    DecRun x = run_dec(cfg, c.data, o.d.out.size() + 4000, ctx);
    if (Verdict v = judge_invalid(x, cfg, o.d.reason); !v.ok()) return v;
  }
  if (ctx.st) {
    ctx.st->distinct("nontrivial", sim::hash_bytes(c.data.data(), c.data.size()));
    ctx.st->inc("fault_fired.corruption." + o.d.reason);
    ctx.st->inc("kind.sampled-invalid");
    add_sample(ctx, c, "\"refdec\": " + json_str(o.d.reason));
  }
  return Verdict();
}
static Registrar r07(new C07);

// ===================================================================== C10
struct C10 : Driver {
  const char *prop() const override { return "C10"; }
  const char *level() const override { return "exploration"; }
  const char *variants(int) const override { return "plain ndebug/4 preempt/4"; }   // ndebug: assertion-free build = the shipped semantics; preempt: decision points inside unsynchronised code too
  uint64_t ncases(int tier) const override { return tier ? 800000 : 60000; }
  std::string rule() const override {
    return "case = a file with planted copies of the 48-bit block-header pattern: (0) pattern + 32 arbitrary bits spelled as legal symbols inside Huffman-coded data (flat 8-bit tables make every byte string a legal symbol sequence), "
           "(1) complete decodable inner blocks inside coded data, (2) pattern or complete blocks (with/without end-of-stream) in ignored trailing data, (3) the same inside files that are invalid further on (bad CRC, primary index, truncation); "
           "decompressed in 3 configurations with -n 2..8, input blocks of 8..4096 bytes or default (so patterns straddle input-block boundaries), worker-starving / PCT / random schedules. "
           "oracle = sequential reference decoding: valid => exit 0 and the same bytes; invalid => exit 1 with a diagnostic, never a crash, assertion, deadlock or different status. reach probes at every discard path are reported. "
           "distinct_nontrivial = distinct (input digest, interleaving hash) pairs among runs that discarded at least one spurious candidate";
  }
  Case gen(uint64_t seed, int tier) const override {
    Rng rng(seed);
    Case c; c.prop = "C10";
    int kind;
    bz::GenOut g = bz::gen_planted(rng, &kind);
    c.data = g.bytes; c.data_desc = "planted kind " + std::to_string(kind) + " " + std::to_string(g.bytes.size()) + "B";
    c.p["kind"] = kind;
    for (int k = 0; k < 3; k++) {
      RunCfg r = decompress_cfg(rng, 2 + (int)rng.below(7), false, c.data.size(), 4000);
      static const size_t ig[] = {0, 8, 16, 32, 32, 64, 64, 128, 256, 1024, 4096};
      r.in_granul = ig[rng.below(sizeof ig / sizeof *ig)];
      if (rng.below(3) == 0) r.out_granul = 1 + rng.below(200);
      if (rng.below(2)) { r.sched.policy = sim::P_STARVE; static const uint32_t m[] = {128, 64, 1u << sim::FC_PRIMARY, 1u << sim::FC_WORKER, (1u << sim::FC_SINK) | 128, 1u << sim::FC_SOURCE}; r.sched.param = m[rng.below(6)]; }
      c.runs.push_back(r);
    }
    return c;
  }
  Verdict eval(const Case &c, Ctx &ctx) const override {
    DecOracle o = dec_oracle(c.data);
    if (o.uncertain) { if (ctx.st) ctx.st->inc("oracle.uncertain_skipped"); return Verdict(); }
    for (auto &cfg : c.runs) {
      DecRun x = run_dec(cfg, c.data, o.d.out.size() + 4000, ctx);
      if (Verdict v = global_monitors(x.r, "decompression with spurious block headers"); !v.ok()) return v;
      if (o.d.verdict == bz::V_VALID) {
        if (!x.r.exited(0)) return Verdict::fail("status", "the sequential decoding succeeds but lbzip2 ended with " + x.r.describe() + "; " + cfg.brief());
        if (x.out != o.d.out) return Verdict::fail("wrong-bytes", "output differs from the sequential decoding (" + std::to_string(x.out.size()) + " vs " + std::to_string(o.d.out.size()) + " bytes); " + cfg.brief());
      } else if (o.d.verdict == bz::V_INVALID) {
        if (Verdict v = judge_invalid(x, cfg, o.d.reason); !v.ok()) return v;
      }
      if (ctx.st) {
        unsigned discards = 0;
        for (auto &kv : x.r.reach) if (kv.first == "x.reorder.bogus" || kv.first == "x.parse.misrecognized" || kv.first == "x.advance.drop_retr" || kv.first == "x.retrieve.redundant" || kv.first == "x.parse.beyond_eof" || kv.first == "x.retrieve.after_eof" || kv.first == "x.parse.eof_unord") discards += kv.second;
        if (discards) ctx.st->distinct("nontrivial", sim::fnv(sim::hash_bytes(c.data.data(), c.data.size()), x.r.ihash));
        if (discards) ctx.st->inc("oracle.runs_that_discarded_a_spurious_candidate");
      }
    }
    if (ctx.st) { ctx.st->inc("kind.planted-" + std::to_string(c.p.at("kind")) + (o.d.verdict == bz::V_VALID ? "-valid" : "-invalid")); add_sample(ctx, c); }
    return Verdict();
  }
};
static Registrar r10(new C10);

// ===================================================================== C15
struct C15 : Driver {
  const char *prop() const override { return "C15"; }
  const char *level() const override { return "fault_enumeration"; }
  uint64_t ncases(int tier) const override { return tier ? 800 : 96; }
  bool exhaustive() const override { return true; }
  std::string exhaustive_note() const override { return "every bit of every stored block CRC and stream CRC of each corpus file (96 files quick, 800 thorough; 1-6 blocks x 1-3 streams); worker counts {1,2,4} all run; schedules and input block sizes sampled per mutant"; }
  std::string rule() const override {
    return "case = one generated valid file with 1-3 streams and 1-6 small blocks per stream (field bit positions known from the generator and confirmed by the reference decoder); EVERY bit of EVERY stored block CRC and stream CRC is flipped, one at a time, "
           "and each mutant is decompressed with -n 1, 2 and 4 under 2 seeded schedules (thorough: 3 input block sizes), so the damaged block is first, middle, last, in a later stream, found by the scanner or only by the parser; oracle: exit status exactly 1 (and no deadlock/abort). "
           "distinct_nontrivial = distinct (file, bit position) mutants";
  }
  Case gen(uint64_t seed, int tier) const override {
    Rng rng(seed);
    Case c; c.prop = "C15";
    auto specs = bz::random_specs(rng, 3, 6, 300, 0);
    bool any = false;
    for (auto &s : specs) { for (auto &b : s.blocks) { b.nsel_surplus = std::min(b.nsel_surplus, 10); any = true; } }
    if (!any) { bz::BlockSpec b; b.plain = "crc"; specs[0].blocks.push_back(b); }
    c.data = bz::genstream(specs, Bytes(), rng).bytes;
    c.data_desc = "valid multi-block file " + std::to_string(c.data.size()) + "B";
    c.p["only"] = -1;
    static const int ws[] = {1, 2, 4};
    for (int w = 0; w < 3; w++) for (int k = 0; k < (tier ? 3 : 2); k++) {
      RunCfg r = decompress_cfg(rng, ws[w], false, c.data.size(), 4000);
      if (tier) r.in_granul = k == 0 ? 0 : k == 1 ? 16 : 256; else r.in_granul = k == 0 ? 0 : 32;
      if (rng.below(3) == 0) r.argv.push_back("-t");
      else if (rng.below(4) == 0) r.operand2 = true;     // the damaged file as the second FILE operand, after an intact one (seeded change C15-3: error reporting state that outlives an operand)
      c.runs.push_back(r);
    }
    return c;
  }
  Verdict eval(const Case &c, Ctx &ctx) const override {
    bz::DecResult d = bz::refdec(c.data);
    if (d.verdict != bz::V_VALID) return Verdict();    // (shrunk input no longer valid: nothing to enumerate)
    std::vector<std::pair<uint64_t, std::string>> fields;
    for (size_t s = 0; s < d.streams.size(); s++) {
      for (size_t b = 0; b < d.streams[s].blocks.size(); b++) fields.push_back({d.streams[s].blocks[b].crc_bitpos, "block CRC of block " + std::to_string(b) + "/" + std::to_string(d.streams[s].blocks.size()) + " in stream " + std::to_string(s)});
      fields.push_back({d.streams[s].crc_bitpos, "stream CRC of stream " + std::to_string(s) + "/" + std::to_string(d.streams.size())});
    }
    int64_t only = c.p.count("only") ? c.p.at("only") : -1;
    for (auto &f : fields) for (int bit = 0; bit < 32; bit++) {
      uint64_t pos = f.first + bit;
      if (only >= 0 && (uint64_t)only != pos) continue;
      Bytes z = c.data;
      z[pos / 8] ^= (char)(0x80 >> (pos % 8));
      for (size_t k = 0; k < c.runs.size(); k++) {
        RunCfg r = c.runs[k];
        r.sched.seed = sim::mix64(r.sched.seed, pos);
        DecRun x = run_dec(r, z, d.out.size(), ctx);
        if (Verdict v = global_monitors(x.r, "decompression with a flipped CRC bit"); !v.ok()) return v;
        if (!(x.r.kind == sim::X_EXIT && x.r.code == 1)) {
          char b[300]; snprintf(b, sizeof b, "bit %d of the %s (file bit %llu) flipped, yet lbzip2 ended with %s; ", bit, f.second.c_str(), (unsigned long long)pos, cls_of_exit(x.r).c_str());
          Verdict vv = Verdict::fail("crc-not-enforced", b + r.brief(), "crc-not-enforced:" + f.second.substr(0, 10));
          vv.narrow["only"] = (int64_t)pos;
          return vv;
        }
      }
      if (ctx.st) { ctx.st->distinct("nontrivial", sim::fnv(sim::hash_bytes(c.data.data(), c.data.size()), pos)); ctx.st->inc(f.second[0] == 'b' ? "fault_fired.block_crc_bit_flip" : "fault_fired.stream_crc_bit_flip"); }
    }
    if (ctx.st) { ctx.st->inc("oracle.crc_fields", fields.size()); add_sample(ctx, c, "\"crc_fields\": " + std::to_string(fields.size())); }
    return Verdict();
  }
};
static Registrar r15(new C15);

}  // namespace props
