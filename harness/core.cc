#include "core.h"
#include "bz.h"

#include <errno.h>
#include <fcntl.h>
#include <signal.h>
#include <stdio.h>
#include <stdlib.h>
#include <string.h>
#include <sys/mman.h>
#include <sys/stat.h>
#include <sys/wait.h>
#include <time.h>
#include <unistd.h>

#include <algorithm>
#include <fstream>
#include <sstream>

namespace core {

double now_s() { struct timespec t; clock_gettime(CLOCK_MONOTONIC, &t); return t.tv_sec + t.tv_nsec / 1e9; }
uint64_t case_seed(uint64_t master, uint64_t index) { return sim::mix64(master * 0x9E3779B97F4A7C15ull + 0x1234567, index); }

std::string hex(const Bytes &b) {
  static const char *d = "0123456789abcdef";
  std::string r; r.reserve(b.size() * 2);
  for (unsigned char c : b) { r.push_back(d[c >> 4]); r.push_back(d[c & 15]); }
  return r;
}
Bytes unhex(const std::string &s) {
  Bytes r; r.reserve(s.size() / 2);
  auto v = [](char c) { return c >= 'a' ? c - 'a' + 10 : c >= 'A' ? c - 'A' + 10 : c - '0'; };
  for (size_t i = 0; i + 1 < s.size(); i += 2) r.push_back((char)(v(s[i]) * 16 + v(s[i + 1])));
  return r;
}
std::string json_str(const std::string &s) {
  std::string r = "\"";
  for (unsigned char c : s) {
    if (c == '"' || c == '\\') { r.push_back('\\'); r.push_back((char)c); }
    else if (c == '\n') r += "\\n";
    else if (c == '\r') r += "\\r";
    else if (c == '\t') r += "\\t";
    else if (c < 0x20 || c >= 0x7f) { char b[8]; snprintf(b, sizeof b, "\\u%04x", c); r += b; }
    else r.push_back((char)c);
  }
  r += "\"";
  return r;
}

// ------------------------------------------------------------------ RunCfg helpers
int RunCfg::workers() const {
  for (size_t i = 0; i + 1 < argv.size(); i++) if (argv[i] == "-n") return atoi(argv[i + 1].c_str());
  return 0;
}
void RunCfg::set_workers(int w) {
  for (size_t i = 0; i + 1 < argv.size(); i++) if (argv[i] == "-n") { argv[i + 1] = std::to_string(w); return; }
  argv.insert(argv.begin(), {"-n", std::to_string(w)});
}
std::string RunCfg::brief() const {
  std::string r = prog;
  for (auto &a : argv) { r += " "; r += a; }
  char b[256];
  snprintf(b, sizeof b, " | sched=%s%s seed=%llu param=%u spurious=%u preempt=%u devs=%zu | in=%d/frag%d out=%d/frag%d", sim::policy_name(sched.policy), sched.explicit_ ? "(explicit)" : "",
           (unsigned long long)sched.seed, sched.param, sched.spurious, sched.preempt, sched.devs.size(), in_kind, in_frag.mode, out_kind, out_frag.mode);
  r += b;
  if (operand2) r += " | data as second FILE operand";
  if (operand2 && op2_visible >= 0) { snprintf(b, sizeof b, " growing from %lld bytes at its read #%d", (long long)op2_visible, op2_grow_at); r += b; }
  if (nofile != 1024) { snprintf(b, sizeof b, " | nofile=%d", nofile); r += b; }
  if (umask != 022) { snprintf(b, sizeof b, " | umask=%03o", umask); r += b; }
  if (inherit_mask) { snprintf(b, sizeof b, " | inherited blocked signals=0x%llx", (unsigned long long)inherit_mask); r += b; }
  if (sched.stall_k) { snprintf(b, sizeof b, " | stall %s#%u for %u decisions", sched.stall_task.c_str(), sched.stall_k, sched.stall_len); r += b; }
  if (in_granul || out_granul || copy_granul) { snprintf(b, sizeof b, " | granul in=%zu out=%zu copy=%zu", in_granul, out_granul, copy_granul); r += b; }
  for (auto &f : faults) { snprintf(b, sizeof b, " | fault %s#%d role%d errno=%d partial=%lld", sim::call_name(f.call), f.k, f.role, f.err, (long long)f.partial); r += b; }
  for (auto &e : sigs) { snprintf(b, sizeof b, " | signal %d at step %llu", e.sig, (unsigned long long)e.step); r += b; }
  if (out_close_after >= 0) { snprintf(b, sizeof b, " | stdout reader closes after %lld", (long long)out_close_after); r += b; }
  if (out_size_limit >= 0) { snprintf(b, sizeof b, " | file size limit %lld", (long long)out_size_limit); r += b; }
  if (ign_pipe) r += " | SIGPIPE ignored";
  if (ign_xfsz) r += " | SIGXFSZ ignored";
  return r;
}

sim::World make_world(const std::vector<FileSpec> &files) {
  sim::World w;
  for (auto &f : files) {
    sim::Inode in;
    in.type = f.type; in.data = f.data; in.mode = f.mode; in.noread = f.noread;
    if (f.visible >= 0 && (size_t)f.visible < f.data.size()) { in.visible = f.visible; in.grow_at = f.grow_at; }
    in.atime_s = f.atime_s; in.atime_ns = f.atime_ns; in.mtime_s = f.mtime_s; in.mtime_ns = f.mtime_ns;
    int idx = w.add(f.name, in);
    for (unsigned k = 0; k < f.nlink_extra; k++) w.link(f.name + ".lnk" + std::to_string(k), idx);
  }
  return w;
}

sim::Result exec(const RunCfg &cfg0, const Bytes &stdin_data0, const std::vector<FileSpec> &files0, Ctx &ctx, bool trace) {
  // operand2: rewrite the filter run into a two-operand invocation (see core.h)
  bool op2 = cfg0.operand2 && files0.empty();
  RunCfg cfg2; std::vector<FileSpec> files2; Bytes nodata; std::string outname;
  if (op2) {
    cfg2 = cfg0;
    bool dec = false;
    for (auto &a : cfg2.argv) if (a == "-d" || a == "--decompress" || a == "-t") dec = true;
    static const Bytes first_plain = "the first operand of this invocation is a small valid file\n";
    static const Bytes first_bz = bz::libbz2_encode(first_plain, 3);
    FileSpec g, f;
    g.name = dec ? "g.bz2" : "g"; g.data = dec ? first_bz : first_plain;
    f.name = dec ? "f.bz2" : "f"; f.data = stdin_data0;
    if (!dec && cfg0.op2_visible >= 0) { f.visible = cfg0.op2_visible; f.grow_at = cfg0.op2_grow_at; }
    outname = dec ? "f" : "f.bz2";
    files2.push_back(g); files2.push_back(f);
    cfg2.argv.push_back(g.name); cfg2.argv.push_back(f.name);
  }
  const RunCfg &cfg = op2 ? cfg2 : cfg0;
  const Bytes &stdin_data = op2 ? nodata : stdin_data0;
  const std::vector<FileSpec> &files = op2 ? files2 : files0;
  sim::Plan p;
  p.argv.push_back(cfg.prog);
  for (auto &a : cfg.argv) p.argv.push_back(a);
  p.nofile = cfg.nofile; p.inherit_mask = cfg.inherit_mask; p.umask = cfg.umask;
  p.env = cfg.env; p.ncpu = cfg.ncpu; p.ign_pipe = cfg.ign_pipe; p.ign_xfsz = cfg.ign_xfsz;
  p.in_granul = cfg.in_granul; p.out_granul = cfg.out_granul; p.copy_granul = cfg.copy_granul;
  p.world = make_world(files);
  p.world.in_kind = cfg.in_kind; p.world.in_data = stdin_data; p.world.in_frag = cfg.in_frag;
  p.world.out_kind = cfg.out_kind; p.world.out_frag = cfg.out_frag; p.world.file_frag = cfg.file_frag;
  p.world.out_close_after = cfg.out_close_after; p.world.out_size_limit = cfg.out_size_limit;
  p.faults = cfg.faults; p.sigs = cfg.sigs; p.sched = cfg.sched; p.junk = cfg.junk; p.step_budget = cfg.step_budget;
  p.trace = trace || ctx.verbose;
  sim::Result r = sim::run(p);
  if (op2) { const sim::Inode *o = r.world.lookup(outname); r.out = o ? o->data : Bytes(); if (ctx.st) ctx.st->inc("kind.data-as-second-operand"); }
  if (ctx.st) ctx.st->absorb(cfg, r);
  ctx.hash = sim::fnv(ctx.hash, r.hash);
  if (ctx.record) ctx.recorded.push_back(r.devs);
  if (ctx.verbose) {
    std::string line = cfg.brief() + "\n      => " + r.describe();
    char b[160];
    snprintf(b, sizeof b, " hash=%016llx preemptions=%llu", (unsigned long long)r.hash, (unsigned long long)r.preemptions);
    line += b;
    for (auto &f : r.faults) { snprintf(b, sizeof b, "\n      fault %s#%d errno=%d %s at step %llu", sim::call_name(f.call), f.k, f.err, f.fired ? "FIRED" : "not reached", (unsigned long long)f.fired_step); line += b; }
    for (auto &e : r.sigs) { snprintf(b, sizeof b, "\n      signal %d at step %llu %s", e.sig, (unsigned long long)e.step, e.fired ? "FIRED" : "not reached"); line += b; }
    // task-level schedule (first 60 events)
    std::string tl;
    size_t shown = 0;
    for (auto &t : r.tasks) { if (shown++ >= 60) { tl += " ..."; break; } snprintf(b, sizeof b, " %u:f%u:%s", t.step, t.fiber, t.name); tl += b; }
    if (!tl.empty()) line += "\n      tasks:" + tl;
    if (const char *lt = getenv("LBZSIM_LASTTASKS")) {      // the end of the task-level schedule (for runs that do not terminate)
      size_t nlast = (size_t)atoi(lt), from = r.tasks.size() > nlast ? r.tasks.size() - nlast : 0;
      std::string tl2;
      for (size_t i = from; i < r.tasks.size(); i++) { snprintf(b, sizeof b, " %u:f%u:%s", r.tasks[i].step, r.tasks[i].fiber, r.tasks[i].name); tl2 += b; }
      line += "\n      last tasks:" + tl2;
    }
    if (getenv("LBZSIM_EVENTS")) {
      size_t nshow = (size_t)atoi(getenv("LBZSIM_EVENTS"));
      static const char *on[] = {"?", "start", "lock", "wait", "signal", "bcast", "create", "join", "texit", "flock", "read", "write", "close", "open", "unlink", "stat", "meta", "kill", "sigsusp", "pexit", "sigrun", "wake", "task", "isatty"};
      size_t from = r.events.size() > nshow ? r.events.size() - nshow : 0;
      for (size_t i = from; i < r.events.size(); i++) {
        const sim::Event &e = r.events[i];
        snprintf(b, sizeof b, "\n        step %u f%u(%s) %s a=%lld r=%lld", e.step, e.fiber, sim::class_name(e.cls), e.op < 24 ? on[e.op] : "?", (long long)e.a, (long long)e.r);
        line += b;
      }
    }
    ctx.run_log.push_back(line);
  }
  return r;
}

Verdict global_monitors(const sim::Result &r, const char *what) {
  std::string w = what;
  if (!r.monitor.empty()) return Verdict::fail("monitor", w + ": " + r.monitor + " -- " + r.describe(), "monitor:" + r.monitor.substr(0, r.monitor.find(':')));
  if (r.kind == sim::X_DEADLOCK) return Verdict::fail("deadlock", w + ": " + r.describe(), "deadlock");
  if (r.kind == sim::X_BUDGET) return Verdict::fail("step-budget", w + ": no termination within the step budget: " + r.describe(), "step-budget");
  if (r.aborted) return Verdict::fail("abort", w + ": " + r.abort_msg + " -- " + r.describe(), "abort:" + r.abort_msg.substr(0, 60));
  return Verdict();
}

// ------------------------------------------------------------------ Stats
void Stats::merge(const Stats &o) {
  for (auto &kv : o.n) n[kv.first] += kv.second;
  for (auto &kv : o.mx) max(kv.first, kv.second);
  for (auto &kv : o.d) { auto &s = d[kv.first]; for (auto h : kv.second) if (s.size() < (1u << 22)) s.insert(h); }
  for (auto &s : o.samples) if (samples.size() < 6) samples.push_back(s);
}
void Stats::save(const std::string &path) const {
  FILE *f = fopen(path.c_str(), "w");
  if (!f) return;
  for (auto &kv : n) fprintf(f, "n %s %llu\n", kv.first.c_str(), (unsigned long long)kv.second);
  for (auto &kv : mx) fprintf(f, "m %s %llu\n", kv.first.c_str(), (unsigned long long)kv.second);
  for (auto &kv : d) { fprintf(f, "d %s %zu", kv.first.c_str(), kv.second.size()); for (auto h : kv.second) fprintf(f, " %llx", (unsigned long long)h); fprintf(f, "\n"); }
  for (auto &s : samples) fprintf(f, "s %s\n", hex(s).c_str());
  fclose(f);
}
bool Stats::load(const std::string &path) {
  std::ifstream in(path);
  if (!in) return false;
  std::string line;
  while (std::getline(in, line)) {
    std::istringstream is(line);
    std::string t, k; is >> t >> k;
    if (t == "n") { unsigned long long v; is >> v; n[k] += v; }
    else if (t == "m") { unsigned long long v; is >> v; max(k, v); }
    else if (t == "d") { size_t cnt; is >> cnt; auto &s = d[k]; std::string h; while (is >> h) s.insert(strtoull(h.c_str(), 0, 16)); }
    else if (t == "s") samples.push_back(unhex(k));
  }
  return true;
}
void Stats::absorb(const RunCfg &cfg, const sim::Result &r) {
  inc("runs"); inc("steps", r.steps); max("steps_max", r.steps); inc("sim_ns", r.sim_ns);
  inc(std::string("policy.") + (cfg.sched.explicit_ ? "explicit" : sim::policy_name(cfg.sched.policy)));
  inc("workers." + std::to_string(cfg.workers()));
  static const char *kn[] = {"exit", "signal", "deadlock", "budget", "killed", "monitor"};
  inc(std::string("end.") + kn[r.kind] + (r.kind == sim::X_EXIT || r.kind == sim::X_SIGNAL ? "." + std::to_string(r.code) : ""));
  for (auto &f : r.faults) inc(std::string(f.fired ? "fault_fired." : "fault_not_reached.") + sim::call_name(f.call) + ".errno" + std::to_string(f.err) + (f.partial ? ".partial" : ""));
  for (auto &e : r.sigs) inc(std::string(e.fired ? "fault_fired.signal" : "fault_not_reached.signal") + std::to_string(e.sig));
  if (cfg.out_close_after >= 0) inc("fault_fired.stdout_reader_closed");
  if (r.spurious_fired) inc("fault_fired.spurious_wakeup", r.spurious_fired);
  if (r.file_grew) inc("fault_fired.input_file_grew_while_read", r.file_grew);
  if (r.frag_cuts) inc("fault_fired.read_fragmented", r.frag_cuts);
  if (r.short_writes) inc("fault_fired.short_write", r.short_writes);
  if (cfg.in_granul) inc("knob.in_granul." + std::to_string(cfg.in_granul));
  if (cfg.out_granul) inc("knob.out_granul");
  if (cfg.copy_granul) inc("knob.copy_granul");
  for (auto &kv : r.reach) inc("reach." + kv.first, kv.second);
  for (auto &kv : r.reach) inc("reachruns." + kv.first);
  for (auto &kv : r.qmax) { max("qmax." + kv.first, kv.second.first); max("qcap." + kv.first, kv.second.second); if (kv.second.second) max("qfill." + kv.first, 100ull * kv.second.first / kv.second.second); }
  if (r.preemptions >= 1 && r.max_live_fibers >= 3) distinct("interleavings", r.ihash);
  for (auto h : r.states) distinct("sched_states", h);
  inc("preemptions", r.preemptions);
  if (cfg.sched.stall_k && !cfg.sched.explicit_) { if (r.stalls_fired) inc("fault_fired.worker_stalled_holding_a_task." + cfg.sched.stall_task); else inc("fault_not_reached.worker_stall." + cfg.sched.stall_task); }
  if (r.inregion_points) { inc("inregion_points", r.inregion_points); inc("inregion_preemptions", r.inregion_preemptions); inc("inregion_runs"); }
  max("peak_heap", r.peak_heap);
}

// ------------------------------------------------------------------ random helpers
sim::Sched random_sched(Rng &rng, bool allow_spurious) {
  sim::Sched s;
  static const int pol[] = {sim::P_RANDOM, sim::P_RANDOM, sim::P_STICKY, sim::P_STICKY, sim::P_STICKY, sim::P_PCT, sim::P_STARVE, sim::P_STARVE, sim::P_PHASES, sim::P_PHASES, sim::P_DEFAULT};
  s.policy = pol[rng.below(sizeof pol / sizeof *pol)];
  s.seed = rng.next();
  if (s.policy == sim::P_STICKY) s.param = 2u << rng.below(6);
  else if (s.policy == sim::P_STARVE) s.param = sim::starve_masks[rng.below(sim::n_starve_masks)];
  else if (s.policy == sim::P_PCT) s.param = (uint32_t)rng.below(3);
  else s.param = 8;
  s.spurious = allow_spurious && rng.below(3) == 0 ? 20u << rng.below(5) : 0;
  if (!strcmp(sim::variant(), "preempt")) { static const uint32_t means[] = {300, 3000, 3000, 30000, 30000, 300000, 3000000}; s.preempt = means[rng.below(7)]; }
  return s;
}
// "slow node" fault: one worker is stalled while it holds the k-th task of a given kind (mode 0 compression, 1 decompression)
void random_stall(Rng &rng, sim::Sched &s, int mode) {
  static const char *ct[] = {"collect", "collect_seq", "transmit", "reorder", "collect", "collect_seq"};
  static const char *dt[] = {"retrieve", "retrieve", "parse", "emit", "scan", "reorder", "retrieve", "emit"};
  s.stall_task = mode == 0 ? ct[rng.below(6)] : dt[rng.below(8)];
  s.stall_k = rng.below(2) ? 1 : 1 + (uint32_t)rng.below(rng.below(2) ? 4 : 40);
  s.stall_len = 20u << rng.below(10);
}
sim::Frag random_frag(Rng &rng) {
  sim::Frag f;
  switch (rng.below(8)) {
  case 0: case 1: f.mode = sim::FR_FULL; break;
  case 2: case 3: f.mode = sim::FR_RANDOM; f.param = (uint32_t)rng.below(4); break;
  case 4: f.mode = sim::FR_SHORT1; break;
  case 5: f.mode = sim::FR_FIXED; f.param = 1u << rng.below(17); break;
  case 6: f.mode = sim::FR_FIXED; f.param = 1 + (uint32_t)rng.below(100000); break;
  default: f.mode = sim::FR_RANDOM; f.param = 0; break;
  }
  return f;
}
int random_workers(Rng &rng) {
  static const int w[] = {1, 1, 2, 2, 2, 3, 3, 4, 4, 5, 6, 8, 12, 16};
  return w[rng.below(sizeof w / sizeof *w)];
}

// ------------------------------------------------------------------ replay text
static void put_frag(std::ostringstream &o, const char *k, const sim::Frag &f) { o << " " << k << " " << f.mode << " " << f.param << "\n"; }
std::string case_to_text(const Case &c, const Verdict &v, uint64_t hash) {
  std::ostringstream o;
  o << "lbzsim-replay 1\n";
  o << "prop " << c.prop << "\nseed " << c.seed << "\n";
  o << "class " << hex(v.cls) << "\nsig " << hex(v.sig) << "\nmsg " << hex(v.msg) << "\nhash " << hash << "\n";
  o << "# class: " << v.cls << "\n# " << v.msg.substr(0, 400) << "\n";
  for (auto &kv : c.p) o << "p " << kv.first << " " << kv.second << "\n";
  o << "datadesc " << hex(c.data_desc) << "\n";
  o << "data " << hex(c.data) << "\n";
  for (auto &f : c.files)
    o << "file " << hex(f.name) << " " << f.type << " " << f.mode << " " << f.nlink_extra << " " << f.atime_s << " " << f.atime_ns << " " << f.mtime_s << " " << f.mtime_ns << " " << (int)f.noread << " V" << f.visible << " " << f.grow_at << " " << hex(f.data) << "\n";
  for (auto &r : c.runs) {
    o << "run\n";
    o << "# " << r.brief() << "\n";
    o << " prog " << hex(r.prog) << "\n";
    for (auto &a : r.argv) o << " arg " << hex(a) << "\n";
    for (auto &kv : r.env) o << " env " << hex(kv.first) << " " << hex(kv.second) << "\n";
    o << " misc " << r.ncpu << " " << r.ign_pipe << " " << r.ign_xfsz << " " << r.in_granul << " " << r.out_granul << " " << r.copy_granul << " " << r.in_kind << " " << r.out_kind << " "
      << r.out_close_after << " " << r.out_size_limit << " " << (int)r.junk << " " << r.step_budget << "\n";
    put_frag(o, "infrag", r.in_frag); put_frag(o, "outfrag", r.out_frag); put_frag(o, "filefrag", r.file_frag);
    for (auto &f : r.faults) o << " fault " << f.call << " " << f.role << " " << f.k << " " << f.err << " " << f.partial << "\n";
    for (auto &e : r.sigs) o << " sig " << e.step << " " << e.sig << "\n";
    if (r.operand2) o << " operand2 1 " << r.op2_visible << " " << r.op2_grow_at << "\n";
    if (r.nofile != 1024 || r.inherit_mask || r.umask != 022) o << " procenv " << r.nofile << " " << r.inherit_mask << " " << r.umask << "\n";
    if (r.sched.stall_k) o << " stall " << r.sched.stall_task << " " << r.sched.stall_k << " " << r.sched.stall_len << "\n";
    o << " sched " << r.sched.policy << " " << r.sched.seed << " " << r.sched.param << " " << r.sched.spurious << " " << (int)r.sched.explicit_ << " " << r.sched.preempt << "\n";
    if (!r.sched.devs.empty()) { o << " devs"; for (auto &d : r.sched.devs) o << " " << d.first << ":" << d.second; o << "\n"; }
    o << "endrun\n";
  }
  o << "end\n";
  return o.str();
}
bool case_from_text(const std::string &text, Case *c, Verdict *v, uint64_t *hash) {
  std::istringstream in(text);
  std::string line;
  if (!std::getline(in, line) || line.rfind("lbzsim-replay", 0) != 0) return false;
  RunCfg *cur = nullptr;
  while (std::getline(in, line)) {
    if (line.empty() || line[0] == '#') continue;
    std::istringstream is(line);
    std::string k; is >> k;
    if (k == "prop") is >> c->prop;
    else if (k == "seed") is >> c->seed;
    else if (k == "class") { std::string h; is >> h; v->cls = unhex(h); }
    else if (k == "sig") { std::string h; is >> h; v->sig = unhex(h); }
    else if (k == "msg") { std::string h; is >> h; v->msg = unhex(h); }
    else if (k == "hash") is >> *hash;
    else if (k == "p") { std::string n; int64_t x; is >> n >> x; c->p[n] = x; }
    else if (k == "datadesc") { std::string h; is >> h; c->data_desc = unhex(h); }
    else if (k == "data") { std::string h; is >> h; c->data = unhex(h); }
    else if (k == "file") {
      FileSpec f; std::string hn, hd; int nr;
      is >> hn >> f.type >> f.mode >> f.nlink_extra >> f.atime_s >> f.atime_ns >> f.mtime_s >> f.mtime_ns >> nr >> hd;
      if (!hd.empty() && hd[0] == 'V') {     // growing-file fields "V<visible> <grow_at>" precede the (possibly empty) content; older replay files lack them
        f.visible = atoll(hd.c_str() + 1); is >> f.grow_at; hd.clear(); is >> hd;
      }
      f.name = unhex(hn); f.data = unhex(hd); f.noread = nr;
      c->files.push_back(f);
    }
    else if (k == "run") { c->runs.push_back(RunCfg()); cur = &c->runs.back(); }
    else if (k == "endrun") cur = nullptr;
    else if (k == "end") break;
    else if (cur) {
      if (k == "prog") { std::string h; is >> h; cur->prog = unhex(h); }
      else if (k == "arg") { std::string h; is >> h; cur->argv.push_back(unhex(h)); }
      else if (k == "env") { std::string a, b; is >> a >> b; cur->env[unhex(a)] = unhex(b); }
      else if (k == "misc") { int j; is >> cur->ncpu >> cur->ign_pipe >> cur->ign_xfsz >> cur->in_granul >> cur->out_granul >> cur->copy_granul >> cur->in_kind >> cur->out_kind >> cur->out_close_after >> cur->out_size_limit >> j >> cur->step_budget; cur->junk = (uint8_t)j; }
      else if (k == "infrag") is >> cur->in_frag.mode >> cur->in_frag.param;
      else if (k == "outfrag") is >> cur->out_frag.mode >> cur->out_frag.param;
      else if (k == "filefrag") is >> cur->file_frag.mode >> cur->file_frag.param;
      else if (k == "fault") { sim::Fault f; is >> f.call >> f.role >> f.k >> f.err >> f.partial; cur->faults.push_back(f); }
      else if (k == "sig") { sim::SigEvent e; is >> e.step >> e.sig; cur->sigs.push_back(e); }
      else if (k == "procenv") { is >> cur->nofile >> cur->inherit_mask; unsigned um; if (is >> um) cur->umask = um; }
      else if (k == "operand2") { int v = 0; is >> v; cur->operand2 = v != 0; long long vis = -1; int ga = 0; if (is >> vis >> ga) { cur->op2_visible = vis; cur->op2_grow_at = ga; } }
      else if (k == "stall") is >> cur->sched.stall_task >> cur->sched.stall_k >> cur->sched.stall_len;
      else if (k == "sched") { int ex; is >> cur->sched.policy >> cur->sched.seed >> cur->sched.param >> cur->sched.spurious >> ex; cur->sched.explicit_ = ex; uint32_t pr = 0; if (is >> pr) cur->sched.preempt = pr; }
      else if (k == "devs") { std::string t; while (is >> t) { size_t c2 = t.find(':'); cur->sched.devs.push_back({(uint32_t)strtoul(t.c_str(), 0, 10), (uint32_t)strtoul(t.c_str() + c2 + 1, 0, 10)}); } }
    }
  }
  return true;
}

// ------------------------------------------------------------------ drivers registry
std::vector<Driver *> &all_drivers() { static std::vector<Driver *> v; return v; }
Driver *find_driver(const std::string &prop) {
  for (auto d : all_drivers()) if (prop == d->prop()) return d;
  return nullptr;
}

// ------------------------------------------------------------------ shrinking
static bool still_fails(const Driver &d, const Case &c, const std::string &cls, int *evals) {
  Ctx ctx;
  (*evals)++;
  Verdict v = d.eval(c, ctx);
  return v.cls == cls;
}

Case shrink(const Driver &d, const Case &c0, const Verdict &v0, int max_evals, int *evals_used) {
  Case best = c0;
  int evals = 0;
  const std::string cls = v0.cls;
  double t0 = now_s();
  auto budget = [&]() { return evals < max_evals && now_s() - t0 < 60; };
  auto try_case = [&](const Case &cand) { if (!budget()) return false; if (still_fails(d, cand, cls, &evals)) { best = cand; return true; } return false; };

  // 1. make every schedule explicit (recorded deviations over the default policy)
  {
    Ctx ctx; ctx.record = true;
    evals++;
    Verdict v = d.eval(best, ctx);
    if (v.cls == cls && ctx.recorded.size() == best.runs.size()) {
      Case cand = best;
      for (size_t i = 0; i < cand.runs.size(); i++) if (!cand.runs[i].sched.explicit_) { cand.runs[i].sched.explicit_ = true; cand.runs[i].sched.devs = ctx.recorded[i]; cand.runs[i].sched.stall_k = 0; /* its effect is part of the recorded choices */ }
      try_case(cand);
    }
  }
  // 2. drop faults / signals / knobs / fragmentation, reduce workers
  for (size_t r = 0; r < best.runs.size() && budget(); r++) {
    for (size_t k = best.runs[r].faults.size(); k-- > 0;) { Case cand = best; cand.runs[r].faults.erase(cand.runs[r].faults.begin() + k); try_case(cand); }
    for (size_t k = best.runs[r].sigs.size(); k-- > 0;) { Case cand = best; cand.runs[r].sigs.erase(cand.runs[r].sigs.begin() + k); try_case(cand); }
    if (best.runs[r].sched.spurious) { Case cand = best; cand.runs[r].sched.spurious = 0; if (cand.runs[r].sched.explicit_) cand.runs[r].sched.devs.clear(); try_case(cand); }
    if (best.runs[r].inherit_mask) { Case cand = best; cand.runs[r].inherit_mask = 0; try_case(cand); }
    if (best.runs[r].nofile != 1024) { Case cand = best; cand.runs[r].nofile = 1024; try_case(cand); }
    if (best.runs[r].op2_visible >= 0) { Case cand = best; cand.runs[r].op2_visible = -1; try_case(cand); }
    if (best.runs[r].operand2) { Case cand = best; cand.runs[r].operand2 = false; try_case(cand); }
    if (best.runs[r].sched.stall_k && !best.runs[r].sched.explicit_) { Case cand = best; cand.runs[r].sched.stall_k = 0; try_case(cand); }
    if (best.runs[r].sched.preempt && !best.runs[r].sched.explicit_) { Case cand = best; cand.runs[r].sched.preempt = 0; try_case(cand); }
    if (best.runs[r].in_granul || best.runs[r].out_granul || best.runs[r].copy_granul) { Case cand = best; cand.runs[r].in_granul = cand.runs[r].out_granul = cand.runs[r].copy_granul = 0; try_case(cand); }
    if (best.runs[r].in_frag.mode) { Case cand = best; cand.runs[r].in_frag = sim::Frag(); try_case(cand); }
    if (best.runs[r].out_frag.mode) { Case cand = best; cand.runs[r].out_frag = sim::Frag(); try_case(cand); }
    if (best.runs[r].file_frag.mode) { Case cand = best; cand.runs[r].file_frag = sim::Frag(); try_case(cand); }
    int w = best.runs[r].workers();
    for (int nw : {1, 2, 3}) if (w > nw) { Case cand = best; cand.runs[r].set_workers(nw); if (try_case(cand)) break; }
  }
  // 3. schedules: empty, shortest failing prefix, then drop single deviations
  for (size_t r = 0; r < best.runs.size() && budget(); r++) {
    if (!best.runs[r].sched.explicit_ || best.runs[r].sched.devs.empty()) continue;
    { Case cand = best; cand.runs[r].sched.devs.clear(); if (try_case(cand)) continue; }
    size_t lo = 0, hi = best.runs[r].sched.devs.size();   // invariant: prefix of length hi fails
    while (lo + 1 < hi && budget()) {
      size_t mid = (lo + hi) / 2;
      Case cand = best; cand.runs[r].sched.devs.resize(mid);
      if (still_fails(d, cand, cls, &evals)) { best = cand; hi = mid; } else lo = mid;
    }
    // remove blocks of deviations, halving block size
    for (size_t blk = std::max<size_t>(1, best.runs[r].sched.devs.size() / 2); blk >= 1 && budget(); blk /= 2) {
      for (size_t pos = 0; pos < best.runs[r].sched.devs.size() && budget();) {
        Case cand = best;
        auto &dv = cand.runs[r].sched.devs;
        dv.erase(dv.begin() + pos, dv.begin() + std::min(dv.size(), pos + blk));
        if (still_fails(d, cand, cls, &evals)) best = cand; else pos += blk;
      }
      if (blk == 1) break;
    }
  }
  // 4. input data: truncate, then remove chunks (ddmin-like), only for small inputs
  if (best.data.size() <= (64u << 10)) {
    for (size_t blk = std::max<size_t>(1, best.data.size() / 2); blk >= 1 && budget(); blk /= 2) {
      for (size_t pos = 0; pos < best.data.size() && budget();) {
        Case cand = best;
        cand.data.erase(pos, std::min(blk, cand.data.size() - pos));
        if (still_fails(d, cand, cls, &evals)) best = cand; else pos += blk;
      }
      if (blk == 1) break;
    }
  }
  if (evals_used) *evals_used = evals;
  return best;
}

// ------------------------------------------------------------------ known findings
struct Known { std::string prop, sig; bool fixed; std::string text; };
static std::vector<Known> load_known() {
  std::vector<Known> v;
  std::ifstream in("known-findings.txt");
  std::string line;
  while (std::getline(in, line)) {
    if (line.rfind("finding:", 0) != 0 && line.rfind("fixed:", 0) != 0) continue;
    Known k; k.fixed = line[1] == 'i' && line[2] == 'x';
    k.text = line;
    size_t p = line.find("property=");
    if (p != std::string::npos) k.prop = line.substr(p + 9, line.find(' ', p) - p - 9);
    p = line.find("sig=");
    if (p != std::string::npos) { size_t e = line.find(' ', p); k.sig = line.substr(p + 4, e == std::string::npos ? std::string::npos : e - p - 4); }
    v.push_back(k);
  }
  return v;
}

static std::string run_tag() { const char *e = getenv("VERIF_RUNTAG"); return e && *e ? std::string("-") + e : std::string(); }

// ------------------------------------------------------------------ check driver
struct Shared { volatile uint64_t cur_case[64]; volatile uint64_t done[64]; volatile uint64_t nviol; };

static std::string self_exe() { char b[4096]; ssize_t n = readlink("/proc/self/exe", b, sizeof b - 1); b[n > 0 ? n : 0] = 0; return b; }

static int fresh_replay(const std::string &path, std::string *outtext) {
  // run "<self> replay <path> --gate" in a fresh process; returns its exit status (or 128+signal)
  int pfd[2];
  if (pipe(pfd)) return -1;
  pid_t pid = fork();
  if (pid == 0) {
    dup2(pfd[1], 1); close(pfd[0]); close(pfd[1]);
    std::string exe = self_exe();
    execl(exe.c_str(), exe.c_str(), "replay", path.c_str(), "--gate", (char *)0);
    _exit(126);
  }
  close(pfd[1]);
  char buf[4096]; ssize_t n;
  while ((n = read(pfd[0], buf, sizeof buf)) > 0) if (outtext) outtext->append(buf, n);
  close(pfd[0]);
  int st = 0;
  waitpid(pid, &st, 0);
  return WIFEXITED(st) ? WEXITSTATUS(st) : 128 + WTERMSIG(st);
}

static std::string replay_path(const std::string &prop, uint64_t master, uint64_t idx) {
  char b[256];
  const char *rd = getenv("VERIF_REPLAY_DIR");
  std::string dir = rd && *rd ? rd : "replays";
  mkdir(dir.c_str(), 0755);
  snprintf(b, sizeof b, "%s/%s-%s-seed%llu-case%llu.txt", dir.c_str(), prop.c_str(), sim::variant(), (unsigned long long)master, (unsigned long long)idx);
  return b;
}

static void write_file(const std::string &path, const std::string &text) {
  std::string tmp = path + ".tmp";
  FILE *f = fopen(tmp.c_str(), "w");
  if (!f) return;
  fwrite(text.data(), 1, text.size(), f);
  fclose(f);
  rename(tmp.c_str(), path.c_str());
}

int run_check(const std::string &prop, int tier, uint64_t master, int jobs) {
  Driver *d = find_driver(prop);
  if (!d) { fprintf(stderr, "no driver for %s\n", prop.c_str()); return 2; }
  double t0 = now_s();
  uint64_t N = d->ncases(tier);
  if (const char *e = getenv("VERIF_CASE_DIV")) { uint64_t dv = strtoull(e, 0, 10); if (dv > 1) N = (N + dv - 1) / dv; }
  if (const char *e = getenv("VERIF_CASES")) N = strtoull(e, 0, 10);
  if (jobs < 1) jobs = 1;
  if (jobs > 64) jobs = 64;
  if ((uint64_t)jobs > N) jobs = (int)N;
  // every variant explores its own cases (the same VERIF_SEED, different derived case seeds)
  uint64_t vmaster = std::string(sim::variant()) == "plain" ? master : sim::mix64(master, sim::hash_bytes(sim::variant(), strlen(sim::variant())));
  double wall_cap = tier == 0 ? 240 : 2400;
  if (const char *e = getenv("VERIF_WALL_CAP")) wall_cap = atof(e);
  mkdir("replays", 0755); mkdir("evidence", 0755); mkdir("build", 0755); mkdir("build/tmp", 0755);
  Shared *sh = (Shared *)mmap(0, sizeof(Shared), PROT_READ | PROT_WRITE, MAP_SHARED | MAP_ANONYMOUS, -1, 0);
  memset((void *)sh, 0xff, sizeof *sh);
  sh->nviol = 0;
  int pfd[2];
  if (pipe(pfd)) return 2;
  std::vector<pid_t> pids(jobs);
  char tag[64]; snprintf(tag, sizeof tag, "%s-%s-%d", prop.c_str(), sim::variant(), (int)getpid());
  for (int w = 0; w < jobs; w++) {
    fflush(stdout);
    pid_t pid = fork();
    if (pid == 0) {
      close(pfd[0]);
      Stats st;
      int viol = 0;
      bool capped = false;
      // VERIF_HASHLOG=<prefix>: every worker logs "case-index history-hash" so that two runs with different worker counts (i.e. different
      // sequences of simulated runs per process) can be compared case by case: ./check selftest-layout
      FILE *hlog = nullptr;
      if (const char *hl = getenv("VERIF_HASHLOG")) hlog = fopen((std::string(hl) + "." + sim::variant() + "." + std::to_string(w)).c_str(), "w");
      for (uint64_t i = w; i < N; i += jobs) {
        if (now_s() - t0 > wall_cap) { capped = true; break; }
        if (sh->nviol >= 4) { st.inc("stopped_early_after_violations"); break; }   // enough counterexamples: the tree is broken
        sh->cur_case[w] = i;
        uint64_t cs = case_seed(vmaster, i);
        Case c = d->gen(cs, tier);
        c.seed = cs;
        Ctx ctx; ctx.st = &st; ctx.tier = tier;
        double tc0 = now_s();
        Verdict v = d->eval(c, ctx);
        st.inc("cases");
        if (const char *sl = getenv("VERIF_SLOWLOG")) { double ms = (now_s() - tc0) * 1000; if (ms >= atof(sl)) fprintf(stderr, "slow case %llu: %.0f ms (%s)\n", (unsigned long long)i, ms, c.data_desc.c_str()); }
        if (const char *dc = getenv("VERIF_DUMPCASE")) if (strtoull(dc, 0, 10) == i) { std::string pth = replay_path(prop, master, i) + ".dump"; write_file(pth, case_to_text(c, v, ctx.hash)); fprintf(stderr, "case %llu written to %s\n", (unsigned long long)i, pth.c_str()); }
        if (hlog) fprintf(hlog, "%llu %016llx %s\n", (unsigned long long)i, (unsigned long long)ctx.hash, v.ok() ? "ok" : v.cls.c_str());
        if (v.ok()) continue;
        // in-process determinism gate: same class and same history hash
        Ctx c2; c2.tier = tier;
        Verdict v2 = d->eval(c, c2);
        std::string line;
        if (v2.cls != v.cls || c2.hash != ctx.hash) {
          line = "N\t" + std::to_string(i) + "\t-\t" + hex(v.cls) + "\t" + hex(v.sig) + "\t" + hex(v.msg + " || second evaluation: " + v2.cls + " " + v2.msg) + "\n";
        } else {
          int ev = 0;
          if (!v.narrow.empty()) {   // enumeration drivers: keep only the failing sub-case
            Case cn = c;
            for (auto &kv : v.narrow) cn.p[kv.first] = kv.second;
            Ctx cx; cx.tier = tier;
            Verdict vn = d->eval(cn, cx);
            if (vn.cls == v.cls) { c = cn; v = vn; ctx.hash = cx.hash; }
          }
          Case m = shrink(*d, c, v, tier == 0 ? 150 : 400, &ev);
          Ctx c3; c3.tier = tier;
          Verdict vm = d->eval(m, c3);
          if (vm.cls != v.cls) { m = c; vm = v; c3.hash = ctx.hash; }
          std::string path = replay_path(prop, master, i);
          write_file(path, case_to_text(m, vm, c3.hash));
          line = "V\t" + std::to_string(i) + "\t" + path + "\t" + hex(vm.cls) + "\t" + hex(vm.sig) + "\t" + hex(vm.msg) + "\n";
          st.inc("shrink_evals", ev);
        }
        if (write(pfd[1], line.data(), line.size()) < 0) {}
        __sync_fetch_and_add(&sh->nviol, 1);
        if (++viol >= 3) break;
      }
      sh->cur_case[w] = ~0ull;
      if (hlog) fclose(hlog);
      if (capped) st.inc("wall_capped_workers");
      st.save(std::string("build/tmp/stats-") + tag + "-" + std::to_string(w) + ".txt");
      sh->done[w] = 1;
      _exit(0);
    }
    pids[w] = pid;
  }
  close(pfd[1]);
  std::string lines;
  { char buf[4096]; ssize_t n; while ((n = read(pfd[0], buf, sizeof buf)) > 0) lines.append(buf, n); }
  close(pfd[0]);
  struct Viol { uint64_t idx; std::string path, cls, sig, msg; bool nondet; bool died = false; };
  std::vector<Viol> viols;
  for (int w = 0; w < jobs; w++) {
    int st = 0;
    waitpid(pids[w], &st, 0);
    bool clean = WIFEXITED(st) && WEXITSTATUS(st) == 0 && sh->done[w] == 1;
    if (!clean) {
      uint64_t idx = sh->cur_case[w];
      Viol v; v.idx = idx; v.nondet = false; v.died = true;
      int code = WIFEXITED(st) ? WEXITSTATUS(st) : 128 + WTERMSIG(st);
      v.cls = code == 77 ? "sanitizer" : "crash";
      v.sig = v.cls;
      v.msg = "worker process ended with status " + std::to_string(code) + " while executing this case (" + (code == 77 ? "sanitizer report, see stderr" : "crash") + ")";
      if (idx != ~0ull) {
        Case c = d->gen(case_seed(vmaster, idx), tier);
        c.seed = case_seed(vmaster, idx);
        Verdict vv = Verdict::fail(v.cls, v.msg, v.sig);
        v.path = replay_path(prop, master, idx);
        write_file(v.path, case_to_text(c, vv, 0));
        viols.push_back(v);
      } else { fprintf(stderr, "worker %d died outside a case (status %d)\n", w, code); return 2; }
    }
  }
  {
    std::istringstream is(lines);
    std::string line;
    while (std::getline(is, line)) {
      std::vector<std::string> f; size_t p = 0;
      while (true) { size_t q = line.find('\t', p); f.push_back(line.substr(p, q == std::string::npos ? q : q - p)); if (q == std::string::npos) break; p = q + 1; }
      if (f.size() < 6) continue;
      Viol v; v.nondet = f[0] == "N"; v.idx = strtoull(f[1].c_str(), 0, 10); v.path = f[2]; v.cls = unhex(f[3]); v.sig = unhex(f[4]); v.msg = unhex(f[5]);
      viols.push_back(v);
    }
  }
  Stats all;
  for (int w = 0; w < jobs; w++) {
    std::string p = std::string("build/tmp/stats-") + tag + "-" + std::to_string(w) + ".txt";
    all.load(p);
    unlink(p.c_str());
  }
  // classify violations
  std::vector<Known> known = load_known();
  int reported = 0, known_hits = 0, nondet = 0;
  std::set<std::string> known_printed;
  for (auto &v : viols) {
    if (v.nondet) { printf("NONDETERMINISTIC property=%s case=%llu class=%s: %s\n", prop.c_str(), (unsigned long long)v.idx, v.cls.c_str(), v.msg.substr(0, 600).c_str()); nondet++; continue; }
    bool is_known = false;
    for (auto &k : known) if (!k.fixed && k.prop == prop && k.sig == v.sig) { is_known = true; if (known_printed.insert(k.sig).second) printf("KNOWN-FINDING: property=%s %s\n", prop.c_str(), k.text.c_str()); }
    if (is_known) { known_hits++; continue; }
    // fresh-process gate
    std::string out;
    int rc = fresh_replay(v.path, &out);
    bool ok = (v.cls == "sanitizer") ? rc == 77 : (v.cls == "crash") ? rc >= 128 : rc == 0;
    if (!ok && v.died && v.cls == "sanitizer") {
      // A sanitizer's verdict can depend on what the process did before (ThreadSanitizer keeps four shadow cells per word and evicts
      // pseudo-randomly, so whether an unordered pair is still visible depends on the detector's internal state; the simulated execution
      // itself is identical).  The exact reproduction is then the dying worker's own history: the replay file gets a prelude naming
      // the cases that worker executed before (w, w+jobs, ... of this check), shortest suffix first.
      uint64_t w0 = v.idx % (uint64_t)jobs, hist = (v.idx - w0) / (uint64_t)jobs;
      for (uint64_t k = 1; !ok && hist; k *= 2) {
        if (k > hist) k = hist;
        Case c = d->gen(case_seed(vmaster, v.idx), tier);
        c.seed = case_seed(vmaster, v.idx);
        c.p["prelude_first"] = (int64_t)(v.idx - k * (uint64_t)jobs); c.p["prelude_step"] = jobs; c.p["prelude_master"] = (int64_t)vmaster; c.p["prelude_tier"] = tier;
        write_file(v.path, case_to_text(c, Verdict::fail(v.cls, v.msg + " [reproduced after re-executing the " + std::to_string(k) + " cases this worker process ran before it]", v.sig), 0));
        out.clear();
        rc = fresh_replay(v.path, &out);
        ok = rc == 77;
        if (k == hist) break;
      }
    }
    if (!ok) { printf("NONDETERMINISTIC property=%s case=%llu: fresh-process replay of %s did not reproduce class %s (status %d)\n%s\n", prop.c_str(), (unsigned long long)v.idx, v.path.c_str(), v.cls.c_str(), rc, out.substr(0, 2000).c_str()); nondet++; continue; }
    printf("VIOLATION property=%s replay=%s\n", prop.c_str(), v.path.c_str());
    printf("  class=%s case=%llu\n  %s\n", v.cls.c_str(), (unsigned long long)v.idx, v.msg.substr(0, 1500).c_str());
    reported++;
  }
  double wall = now_s() - t0;
  all.inc("violations", reported); all.inc("known_hits", known_hits); all.inc("nondet", nondet);
  all.inc("cases_planned", N); all.inc("wall_ms", (uint64_t)(wall * 1000));
  all.inc(std::string("variant.") + sim::variant());
  all.save(std::string("build/tmp/part-") + prop + "-" + sim::variant() + run_tag() + ".txt");
  printf("%s %s %s: cases=%llu/%llu runs=%llu distinct_nontrivial=%zu violations=%d known=%d nondet=%d wall=%.1fs\n", prop.c_str(), tier ? "thorough" : "quick", sim::variant(),
         (unsigned long long)all.n["cases"], (unsigned long long)N, (unsigned long long)all.n["runs"], all.d.count("nontrivial") ? all.d["nontrivial"].size() : 0, reported, known_hits, nondet, wall);
  // a candidate that fails its replay gate is never reported as a violation; it turns the whole check into
  // "machinery problem" (exit 2) only when no other violation of this run was confirmed
  if (reported) return 1;
  return nondet ? 2 : 0;
}


int write_evidence(const std::string &prop, int tier, uint64_t master, const std::vector<std::string> &variants) {
  Driver *d = find_driver(prop);
  if (!d) return 2;
  Stats all;
  std::string used;
  for (auto &v : variants) {
    std::string p = "build/tmp/part-" + prop + "-" + v + run_tag() + ".txt";
    if (all.load(p)) { used += (used.empty() ? "" : " ") + v; unlink(p.c_str()); }
  }
  double wall = all.n["wall_ms"] / 1000.0;
  uint64_t N = all.n["cases_planned"];
  int reported = (int)all.n["violations"];
  std::ostringstream o;
  uint64_t evals = all.n["runs"];
  uint64_t distinct = all.d.count("nontrivial") ? all.d["nontrivial"].size() : 0;
  o << "{\n \"property_id\": " << json_str(prop) << ",\n \"tier\": \"" << (tier ? "thorough" : "quick") << "\",\n \"seed\": " << (long long)(master & 0x7fffffffffffffffull) << ",\n \"level\": \"" << d->level() << "\",\n";
  o << " \"wall_s\": " << wall << ",\n \"violations\": " << reported << ",\n \"known_findings_matched\": " << all.n["known_hits"] << ",\n";
  o << " \"assumptions\": [";
  { auto a = d->assumptions(); a.push_back("the kernel/libc stub of the simulator (threads, mutexes, condition variables, signals, file system, pipes, heap bookkeeping, stderr, clock) behaves like Linux/glibc for the calls lbzip2 makes; validated by ./check selftest-fidelity, not proven");
    a.push_back("interleavings inside unsynchronised code regions are not executed (decision points are the intercepted calls)");
    for (size_t i = 0; i < a.size(); i++) o << (i ? ", " : "") << json_str(a[i]); }
  o << "],\n \"coverage\": {\n";
  o << "  \"evaluations\": " << evals << ",\n  \"cases\": " << all.n["cases"] << ",\n  \"cases_planned\": " << N << ",\n  \"distinct_nontrivial\": " << distinct << ",\n";
  o << "  \"rule\": " << json_str(d->rule()) << ",\n";
  o << "  \"exhaustive\": " << (d->exhaustive() ? "true" : "false") << ",\n";
  if (!d->exhaustive_note().empty()) o << "  \"exhaustive_dimension\": " << json_str(d->exhaustive_note()) << ",\n";
  o << "  \"samples\": [";
  for (size_t i = 0; i < all.samples.size(); i++) o << (i ? ",\n   " : "\n   ") << all.samples[i];
  o << "\n  ],\n";
  o << "  \"variants_run\": " << json_str(used) << ",\n";
  o << "  \"runs_per_hour\": " << (uint64_t)(evals / std::max(wall, 0.001) * 3600) << ",\n  \"seeds_per_hour\": " << (uint64_t)(all.n["cases"] / std::max(wall, 0.001) * 3600) << ",\n";
  o << "  \"decision_steps_total\": " << all.n["steps"] << ",\n  \"decision_steps_max_per_run\": " << all.mx["steps_max"] << ",\n  \"simulated_seconds\": " << all.n["sim_ns"] / 1e9 << ",\n";
  o << "  \"interleavings_distinct\": " << (all.d.count("interleavings") ? all.d["interleavings"].size() : 0) << ",\n  \"interleavings_measure\": \"distinct hashes of the sequence of (thread class, operation) pairs of a run, among runs with >= 3 live threads and >= 1 preemption\",\n";
  o << "  \"sched_states_distinct\": " << (all.d.count("sched_states") ? all.d["sched_states"].size() : 0) << ",\n";
  o << "  \"decision_points_inside_unsynchronised_code\": " << all.n["inregion_points"] << ", \"thread_switches_inside_unsynchronised_code\": " << all.n["inregion_preemptions"] << ", \"runs_with_such_points\": " << all.n["inregion_runs"] << ",\n";
  o << "  \"preemptions_total\": " << all.n["preemptions"] << ",\n  \"peak_heap_max\": " << all.mx["peak_heap"] << ",\n";
  auto dump_prefix = [&](const char *name, const char *prefix, const std::map<std::string, uint64_t> &m) {
    o << "  \"" << name << "\": {";
    bool first = true; size_t pl = strlen(prefix);
    for (auto &kv : m) if (kv.first.compare(0, pl, prefix) == 0) { o << (first ? "" : ", ") << json_str(kv.first.substr(pl)) << ": " << kv.second; first = false; }
    o << "},\n";
  };
  dump_prefix("faults_fired", "fault_fired.", all.n);
  dump_prefix("faults_configured_not_reached", "fault_not_reached.", all.n);
  dump_prefix("knobs", "knob.", all.n);
  dump_prefix("reach", "reach.", all.n);
  dump_prefix("reach_runs", "reachruns.", all.n);
  dump_prefix("queue_max_occupancy", "qmax.", all.mx);
  dump_prefix("queue_capacity", "qcap.", all.mx);
  dump_prefix("queue_max_fill_percent_of_its_capacity_in_one_run", "qfill.", all.mx);
  dump_prefix("policies", "policy.", all.n);
  dump_prefix("workers", "workers.", all.n);
  dump_prefix("run_endings", "end.", all.n);
  dump_prefix("oracle", "oracle.", all.n);
  dump_prefix("case_kinds", "kind.", all.n);
  dump_prefix("runs_per_variant", "variant.", all.n);
  dump_prefix("peak_live_heap_by_config", "peak.", all.mx);
  dump_prefix("frozen_bound_by_config", "bound.", all.mx);
  dump_prefix("oracle_max", "oracle.", all.mx);
  o << "  \"wall_capped_workers\": " << all.n["wall_capped_workers"] << ",\n";
  o << "  \"nondeterminism_reports\": " << all.n["nondet"] << ",\n";
  o << "  \"components\": {\"real\": \"all of /repo/src/*.c compiled from the working tree with -DKJN_LBZIP2_VERIF (main.c signals.c process.c compress.c expand.c parse.c decode.c encode.c divbwt.c crctab.c timespec.c) plus libc's pure functions\", \"stub\": \"threads, mutexes, condition variables, signals, file system, pipes, process exit, heap bookkeeping, stdio on stderr/stdout, clock (sim/sim.cc)\"}\n";
  o << " }\n}\n";
  const char *ed = getenv("VERIF_EVIDENCE_DIR");
  std::string dir = ed && *ed ? ed : "evidence";
  mkdir(dir.c_str(), 0755);
  write_file(dir + "/" + prop + ".json", o.str());
  return 0;
}

int run_replay(const std::string &path, bool gate) {
  std::ifstream in(path);
  if (!in) { fprintf(stderr, "cannot read %s\n", path.c_str()); return 2; }
  std::stringstream ss; ss << in.rdbuf();
  Case c; Verdict want; uint64_t hash = 0;
  if (!case_from_text(ss.str(), &c, &want, &hash)) { fprintf(stderr, "not a replay file\n"); return 2; }
  Driver *d = find_driver(c.prop);
  if (!d) { fprintf(stderr, "no driver for %s\n", c.prop.c_str()); return 2; }
  if (c.p.count("prelude_step")) {     // re-create the detector state of the worker process that died (see run_check)
    uint64_t first = (uint64_t)c.p["prelude_first"], step = (uint64_t)c.p["prelude_step"], vm = (uint64_t)c.p["prelude_master"]; int ptier = (int)c.p["prelude_tier"];
    uint64_t last = first;
    for (uint64_t i = first; step; i += step) {
      uint64_t cs = case_seed(vm, i);
      if (cs == c.seed) break;
      if (i - first > 100000 * step) { fprintf(stderr, "prelude does not lead to the recorded case\n"); return 2; }
      Case pc = d->gen(cs, ptier); pc.seed = cs;
      Ctx px; px.tier = ptier;
      d->eval(pc, px);
      last = i;
    }
    if (!gate) printf("prelude: re-executed cases %llu..%llu (step %llu) of this check first\n", (unsigned long long)first, (unsigned long long)last, (unsigned long long)step);
  }
  Ctx ctx; ctx.verbose = !gate;
  Verdict v = d->eval(c, ctx);
  if (!gate) {
    printf("replay of %s (property %s, case seed %llu)\n", path.c_str(), c.prop.c_str(), (unsigned long long)c.seed);
    printf("input: %zu bytes (%s)\n", c.data.size(), c.data_desc.c_str());
    for (size_t i = 0; i < ctx.run_log.size(); i++) printf("  run %zu: %s\n", i, ctx.run_log[i].c_str());
    printf("expected: class=%s hash=%llu\n", want.cls.c_str(), (unsigned long long)hash);
    printf("observed: class=%s hash=%llu\n  %s\n", v.cls.c_str(), (unsigned long long)ctx.hash, v.msg.c_str());
  }
  bool same = v.cls == want.cls && (hash == 0 || hash == ctx.hash);
  printf("%s class=%s\n", same ? "REPRODUCED" : "NOT-REPRODUCED", v.cls.c_str());
  return same ? 0 : 3;
}

}  // namespace core
