#include "sim.h"
#include <cstdio>
#include <cstdlib>
#include <cstring>
#include <ctime>
using namespace sim;

static double now() { struct timespec t; clock_gettime(CLOCK_MONOTONIC, &t); return t.tv_sec + t.tv_nsec / 1e9; }

int main(int argc, char **argv) {
  size_t n = argc > 1 ? strtoul(argv[1], 0, 10) : 300000;
  int nseeds = argc > 2 ? atoi(argv[2]) : 20;
  int W = argc > 3 ? atoi(argv[3]) : 3;
  sim::init();
  Bytes in(n, 0);
  uint64_t s = 12345;
  for (size_t i = 0; i < n; i++) { s = s * 6364136223846793005ull + 1442695040888963407ull; in[i] = (s >> 60) < 11 ? 'a' + ((s >> 33) % 3) : in[i ? i - 1 : 0]; }
  int bad = 0; double t0 = now(); uint64_t steps = 0;
  Bytes z0;
  for (int k = 0; k < nseeds; k++) {
    Plan p; p.argv = {"lbzip2", "-n", std::to_string(W), "-1"}; if (k & 1) p.argv.push_back("-u");
    p.world.in_data = in; p.world.in_kind = K_PIPE; p.world.in_frag.mode = FR_RANDOM; p.world.in_frag.param = 2;
    p.sched.policy = 1 + k % 5; p.sched.seed = 1000 + k; p.sched.param = p.sched.policy == P_STARVE ? starve_masks[k % n_starve_masks] : 8; p.sched.spurious = 50;
    Result r = run(p);
    Result r2 = run(p);
    steps += r.steps;
    if (r.hash != r2.hash) { printf("NONDET seed %d\n", k); bad++; }
    Plan pe = p; pe.sched.explicit_ = true; pe.sched.devs = r.devs;
    Result r3 = run(pe);
    if (r.hash != r3.hash) { printf("EXPLICIT REPLAY DIFFERS seed %d: %s vs %s\n", k, r.describe().c_str(), r3.describe().c_str()); bad++; }
    if (!r.exited(0) || !r.err.empty() || !r.monitor.empty()) { printf("compress seed %d: %s\n", k, r.describe().c_str()); bad++; }
    if (!(k & 1)) { if (z0.empty()) z0 = r.out; else if (z0 != r.out) { printf("C03 diff seed %d\n", k); bad++; } }
    Plan d; d.argv = {"lbzip2", "-n", std::to_string(W), "-d"}; d.world.in_data = r.out; d.sched.policy = 1 + (k + 2) % 5; d.sched.seed = 5000 + k;
    if (k % 3 == 0) { d.in_granul = 4 << (k % 7); d.out_granul = 1 + 1000 * (k % 5); }
    Result rd = run(d);
    steps += rd.steps;
    if (!rd.exited(0) || !rd.err.empty() || rd.out != in || !rd.monitor.empty()) { printf("decompress seed %d: %s\n", k, rd.describe().c_str()); bad++; }
    if (k < 3) {
      printf("seed %d: z=%zu steps=%llu/%llu devs=%zu preempt=%llu peak=%zu states=%zu\n", k, r.out.size(), (unsigned long long)r.steps, (unsigned long long)rd.steps, r.devs.size(), (unsigned long long)r.preemptions, r.peak_heap, rd.states.size());
      for (auto &kv : rd.reach) printf("   %s=%u", kv.first.c_str(), kv.second);
      printf("\n");
      for (auto &kv : rd.qmax) printf("   %s=%u/%u", kv.first.c_str(), kv.second.first, kv.second.second);
      printf("\n");
    }
  }
  double dt = now() - t0;
  printf("variant=%s seeds=%d bad=%d %.2fs %.1f runs/s avg steps %llu\n", variant(), nseeds, bad, dt, 4 * nseeds / dt, (unsigned long long)(steps / (2 * nseeds)));
  return bad != 0;
}
