// lbzsim command line: check / replay / evidence / selftests.
#include <cstdio>
#include <cstdlib>
#include <cstring>
#include "core.h"
#include "selftest.h"

// sanitizer defaults: a report must end the worker process with exit code 77 so that the
// driver can attribute it to the case that was executing (ASAN_OPTIONS may extend this)
extern "C" __attribute__((used)) const char *__asan_default_options() { return "exitcode=77:detect_leaks=0:abort_on_error=0:detect_stack_use_after_return=0:allocator_may_return_null=1"; }
extern "C" __attribute__((used)) const char *__ubsan_default_options() { return "halt_on_error=1:exitcode=77:print_stacktrace=1"; }
extern "C" __attribute__((used)) const char *__tsan_default_options() { return "halt_on_error=1:exitcode=77:report_signal_unsafe=0:report_thread_leaks=0:second_deadlock_stack=0:history_size=7"; }

int main(int argc, char **argv) {
  setvbuf(stdout, nullptr, _IOLBF, 0);
  if (argc < 2) { fprintf(stderr, "usage: lbzsim check <Cxx> <quick|thorough> | replay <file> [--gate] | evidence <Cxx> <tier> <variants...> | selftest-<name>\n"); return 2; }
  std::string cmd = argv[1];
  uint64_t seed = 1;
  if (const char *e = getenv("VERIF_SEED")) seed = strtoull(e, 0, 10);
  int jobs = 16;
  if (const char *e = getenv("VERIF_JOBS")) jobs = atoi(e);
  sim::init();
  if (cmd == "check" && argc >= 4) return core::run_check(argv[2], !strcmp(argv[3], "thorough"), seed, jobs);
  if (cmd == "replay" && argc >= 3) return core::run_replay(argv[2], argc >= 4 && !strcmp(argv[3], "--gate"));
  if (cmd == "evidence" && argc >= 4) {
    std::vector<std::string> v;
    for (int i = 4; i < argc; i++) v.push_back(argv[i]);
    return core::write_evidence(argv[2], !strcmp(argv[3], "thorough"), seed, v);
  }
  if (cmd == "variants" && argc >= 4) {
    core::Driver *d = core::find_driver(argv[2]);
    if (!d) return 2;
    printf("%s\n", d->variants(!strcmp(argv[3], "thorough")));
    return 0;
  }
  if (cmd.rfind("selftest-", 0) == 0) return selftest::run(cmd.substr(9), argc - 2, argv + 2, seed, jobs);   // argv[0] of the selftest = first parameter
  fprintf(stderr, "unknown command\n");
  return 2;
}
