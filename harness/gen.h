// Plain-data input generators shared by the compression-side drivers (DESIGN.md section 5).
#pragma once
#include <string>
#include "sim.h"
namespace gen {
using sim::Bytes;
using sim::Rng;
// level is used for boundary-biased kinds (block capacity level*100000)
Bytes input(Rng &rng, int level, size_t max_size, std::string *desc);
Bytes tiny(Rng &rng);
Bytes runs_around_limits(Rng &rng, size_t n, unsigned alpha);
Bytes capacity_edge(Rng &rng, int level, bool sequential_like);     // RLE'd size lands on cap-3..cap+3
Bytes seq_edge(Rng &rng, int level);          // run crossing an input-chunk boundary while the block is one byte from full
Bytes random_bytes(Rng &rng, size_t n, unsigned alpha);
Bytes markov_text(Rng &rng, size_t n);
Bytes fibonacci(Rng &rng, size_t n);
Bytes periodic(Rng &rng, size_t n);
}  // namespace gen
