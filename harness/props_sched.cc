// Drivers for the schedule-centred properties: C01 C03 C09 C11 C12 C13 and the C08 workload.
#include <algorithm>
#include "common.h"

namespace props {

static int pick_level(Rng &rng, int tier) {
  if (tier == 0) return rng.below(8) ? 1 + (int)rng.below(3) : 1 + (int)rng.below(9);
  return rng.below(3) ? 1 + (int)rng.below(3) : 1 + (int)rng.below(9);
}
static size_t pick_max_size(Rng &rng, int tier, int level) {
  size_t chunk = (size_t)level * 100000;
  if (tier == 0) return std::min<size_t>(rng.below(4) ? 2 * chunk + 5000 : 4 * chunk + 5000, 700000);
  return std::min<size_t>((1 + rng.below(6)) * chunk + 5000, 3000000);
}

// ===================================================================== C01
struct C01 : Driver {
  const char *prop() const override { return "C01"; }
  const char *level() const override { return "exploration"; }
  const char *variants(int) const override { return "plain ndebug/4 preempt/4"; }   // ndebug: assertion-free build = the shipped semantics; preempt: decision points inside unsynchronised code too
  uint64_t ncases(int tier) const override { return tier ? 300000 : 20000; }
  std::string rule() const override {
    return "case = (generated input, level 1-9, --sequential or not, -n 1..16, stdin file/pipe with fragmentation, seeded scheduling policy) compressed in one simulated process and "
           "decompressed in a second one under independently drawn worker count, policy, input block size and output buffer size; oracle: both exit 0, both stderr empty, bytes equal. "
           "distinct_nontrivial counts distinct (input digest, level, mode) triples with a non-empty input";
  }
  Case gen(uint64_t seed, int tier) const override {
    Rng rng(seed);
    Case c; c.prop = "C01";
    int level = pick_level(rng, tier);
    bool seq = rng.below(2);
    c.p["level"] = level; c.p["seq"] = seq;
    size_t extra = rng.below(4) == 0 ? (size_t)level * 100000 : 0;    // one case in four: one more block, as in C03, so that 2n+2 output slots fill at small n (seeded change C11-6)
    c.data = gen::input(rng, level, pick_max_size(rng, tier, level) + extra, &c.data_desc);
    c.runs.push_back(compress_cfg(rng, level, seq, random_workers(rng), true));
    c.runs.push_back(decompress_cfg(rng, random_workers(rng), true, c.data.size() / 2 + 100, c.data.size()));
    if (rng.below(8) == 0) use_default_workers(c.runs[rng.below(2)]);      // no -n: one worker per (simulated) CPU
    if (rng.below(8) == 0) { int w = (int)rng.below(2); if (w == 0) as_second_operand(rng, c.runs[0], c.data.size(), true); else c.runs[1].operand2 = true; }   // the data as the second FILE operand of the invocation
    return c;
  }
  Verdict eval(const Case &c, Ctx &ctx) const override {
    if (c.runs.size() < 2) return Verdict();
    RunCfg r0 = c.runs[0], r1 = c.runs[1];
    r0.step_budget = budget_for(c.data.size(), 100000, c.data.size(), 100000, 4);
    sim::Result a = exec(r0, c.data, {}, ctx);
    if (Verdict v = global_monitors(a, "compression"); !v.ok()) return v;
    if (!a.exited(0)) return Verdict::fail("compress-status", "compression ended with " + a.describe());
    if (!a.err.empty()) return Verdict::fail("compress-stderr", "compression printed on stderr: " + a.err.substr(0, 200));
    r1.step_budget = budget_for(a.out.size(), r1.in_granul ? r1.in_granul : 262144, c.data.size(), r1.out_granul ? r1.out_granul : 900000, c.data.size() / 100000 + 2);
    sim::Result b = exec(r1, a.out, {}, ctx);
    if (Verdict v = global_monitors(b, "decompression"); !v.ok()) return v;
    if (!b.exited(0)) return Verdict::fail("decompress-status", "decompression of lbzip2's own output ended with " + b.describe());
    if (!b.err.empty()) return Verdict::fail("decompress-stderr", "decompression printed on stderr: " + b.err.substr(0, 200));
    if (b.out != c.data) return Verdict::fail("roundtrip-mismatch", "round trip produced " + std::to_string(b.out.size()) + " bytes that differ from the " + std::to_string(c.data.size()) + "-byte input");
    if (ctx.st) {
      if (!c.data.empty()) ctx.st->distinct("nontrivial", sim::fnv(sim::hash_bytes(c.data.data(), c.data.size()), c.p.at("level") * 2 + c.p.at("seq")));
      ctx.st->inc(std::string("kind.level") + std::to_string(c.p.at("level")));
      ctx.st->inc(c.p.at("seq") ? "kind.sequential" : "kind.default-mode");
      add_sample(ctx, c, obs_json(b));
    }
    return Verdict();
  }
};
static Registrar r01(new C01);

// ===================================================================== C03
struct C03 : Driver {
  const char *prop() const override { return "C03"; }
  const char *level() const override { return "exploration"; }
  const char *variants(int) const override { return "plain ndebug/4 preempt/4"; }   // ndebug: assertion-free build = the shipped semantics; preempt: decision points inside unsynchronised code too
  uint64_t ncases(int tier) const override { return tier ? 40000 : 6000; }
  std::string rule() const override {
    return "case = one (input, level, mode) compressed under K configurations (K=6 quick, 16-24 thorough) of everything that must not matter: -n 1..16, scheduling policy and seed incl. starved reader/writer/worker, "
           "stdin file vs pipe with random/1-byte-short/fixed fragmentation, short writes, stdout vs FILE operand, heap junk pattern; oracle: all outputs byte-identical to the -n 1 default-schedule run. "
           "distinct_nontrivial counts distinct (input digest, level, mode) with at least two input chunks or --sequential";
  }
  Case gen(uint64_t seed, int tier) const override {
    Rng rng(seed);
    Case c; c.prop = "C03";
    int level = pick_level(rng, tier);
    bool seq = rng.below(3) != 0;    // sequential mode over-weighted
    c.p["level"] = level; c.p["seq"] = seq;
    c.data = gen::input(rng, level, pick_max_size(rng, tier, level) + (size_t)level * 100000, &c.data_desc);
    int K = tier ? 16 + (int)rng.below(9) : 6;
    for (int k = 0; k < K; k++) {
      RunCfg r = compress_cfg(rng, level, seq, k == 0 ? 1 : random_workers(rng), k != 0);
      if (k == 0) { r.sched = sim::Sched(); r.sched.policy = sim::P_DEFAULT; r.in_kind = sim::K_FILE; }
      else if (rng.below(3) == 0) { r.argv.push_back("f"); }     // FILE operand: f -> f.bz2
      if (k != 0 && rng.below(10) == 0) use_default_workers(r);
      if (k != 0 && rng.below(12) == 0) { sim::Fault ft; ft.call = sim::C_MALLOC; ft.role = sim::R_ANY; ft.k = (int)rng.below(8); ft.err = ENOMEM; r.faults.push_back(ft); }   // one large allocation fails: the run may give up (status 1), it must not succeed with other bytes (seeded change C03-5)
      if (k != 0 && r.argv.back() != "f" && rng.below(6) == 0) as_second_operand(rng, r, c.data.size(), true);     // as the second FILE operand (possibly still growing while read): still the same bytes
      c.runs.push_back(r);
    }
    return c;
  }
  Verdict eval(const Case &c, Ctx &ctx) const override {
    Bytes ref;
    for (size_t k = 0; k < c.runs.size(); k++) {
      RunCfg r = c.runs[k];
      r.step_budget = budget_for(c.data.size(), 100000, c.data.size(), 100000, 4);
      bool operand = !r.argv.empty() && r.argv.back() == "f";
      std::vector<FileSpec> files;
      if (operand) { FileSpec f; f.name = "f"; f.data = c.data; files.push_back(f); }
      sim::Result a = exec(r, operand ? Bytes() : c.data, files, ctx);
      if (Verdict v = global_monitors(a, "compression"); !v.ok()) return v;
      bool alloc_failed = false;
      for (auto &ft : a.faults) if (ft.fired && ft.call == sim::C_MALLOC) alloc_failed = true;
      if (alloc_failed && a.exited(1) && !a.err.empty()) { if (ctx.st) ctx.st->inc("oracle.gave_up_after_allocation_failure"); continue; }      // allowed: a loud failure; what it wrote before is not compared
      if (!a.exited(0) || !a.err.empty()) return Verdict::fail("compress-status", "configuration " + std::to_string(k) + " (" + r.brief() + ") ended with " + a.describe());
      Bytes out;
      if (operand) { const sim::Inode *o = a.world.lookup("f.bz2"); if (!o) return Verdict::fail("no-output-file", "f.bz2 missing after compressing operand f"); out = o->data; }
      else out = a.out;
      if (k == 0) ref = out;
      else if (out != ref) {
        size_t d = 0; while (d < out.size() && d < ref.size() && out[d] == ref[d]) d++;
        return Verdict::fail("output-differs", "configuration " + std::to_string(k) + " (" + r.brief() + ") produced " + std::to_string(out.size()) + " bytes, reference " + std::to_string(ref.size()) + ", first difference at byte " + std::to_string(d));
      }
    }
    if (ctx.st) {
      if (c.data.size() > (size_t)c.p.at("level") * 100000 || (c.p.at("seq") && !c.data.empty()))
        ctx.st->distinct("nontrivial", sim::fnv(sim::hash_bytes(c.data.data(), c.data.size()), c.p.at("level") * 2 + c.p.at("seq")));
      add_sample(ctx, c);
    }
    return Verdict();
  }
};
static Registrar r03(new C03);

// ===================================================================== compressed inputs for C09/C11
static Bytes some_compressed(Rng &rng, int tier, Bytes *plain_out, std::string *desc, int *validity) {
  // mixes: libbz2 multi-stream, genstream valid, genstream with a defect, truncated, planted patterns
  int k = (int)rng.below(11);
  Bytes z;
  *validity = bz::V_VALID;
  if (k == 10) {
    // blocks in which every occurring symbol has a 20-bit code: each group of 50 symbols needs the full 1000 bits,
    // which is what the decoder's fast path (32 whole words available) is dimensioned for
    std::vector<bz::StreamSpec> ss(1);
    ss[0].level = 1 + (int)rng.below(9);
    int nb = 1 + (int)rng.below(3);
    for (int b = 0; b < nb; b++) {
      bz::BlockSpec bs;
      unsigned alpha = 2 + (unsigned)rng.below(6);
      bs.plain = gen::random_bytes(rng, 500 + rng.below(6000), alpha);
      bs.long_codes = 1; bs.extra_inuse = 60 + (int)rng.below(100); bs.ntables = 2 + (int)rng.below(5);
      ss[0].blocks.push_back(bs);
    }
    z = bz::genstream(ss, Bytes(), rng).bytes;
    *desc = "long-codes";
  } else if (k < 3) {
    std::string d;
    Bytes plain = gen::input(rng, 1, tier ? 600000 : 250000, &d);
    z = lib_multistream(rng, plain, 1 + (int)rng.below(4));
    *plain_out = plain; *desc = "libbz2(" + d + ")";
  } else if (k < 6) {
    auto specs = bz::random_specs(rng, 3, 6, 3000, 0);
    Bytes tr; if (rng.below(3) == 0) tr = bz::random_trailing(rng);
    bz::GenOut g = bz::genstream(specs, tr, rng);
    z = g.bytes; *desc = "genstream valid";
  } else if (k < 8) {
    auto specs = bz::random_specs(rng, 3, 5, 2000, 256);
    bz::GenOut g = bz::genstream(specs, Bytes(), rng);
    z = g.bytes; *desc = "genstream defect " + g.defects;
  } else if (k == 8) {
    auto specs = bz::random_specs(rng, 2, 4, 2000, 0);
    bz::GenOut g = bz::genstream(specs, Bytes(), rng);
    z = g.bytes;
    if (z.size() > 5) z.resize(rng.below(z.size()));
    *desc = "genstream truncated";
  } else {
    int kind; bz::GenOut g = bz::gen_planted(rng, &kind);
    z = g.bytes; *desc = "planted kind " + std::to_string(kind);
  }
  bz::DecResult d = bz::refdec(z);
  *validity = d.verdict;
  if (d.verdict != bz::V_INVALID) *plain_out = d.out;
  return z;
}

// ===================================================================== C09
static Bytes queue_filler(Rng &rng, int W, std::string *desc);
static void stall_a_worker(Rng &rng, RunCfg &r);

struct C09 : Driver {
  const char *prop() const override { return "C09"; }
  const char *level() const override { return "exploration"; }
  const char *variants(int) const override { return "plain ndebug/4 preempt/4"; }   // ndebug: assertion-free build = the shipped semantics; preempt: decision points inside unsynchronised code too
  uint64_t ncases(int tier) const override { return tier ? 80000 : 8000; }
  std::string rule() const override {
    return "case = one compressed input (valid, invalid or documented-exception; libbz2 output, generated streams, planted block-header patterns, truncations) decompressed under K configurations (K=6 quick, 12-16 thorough): "
           "-n 1..16, scheduling policy/seed, read fragmentation, input block size 4 B..64 KiB (hook H1), output buffer size 1 B..100000 B (hook H1), output to stdout / FILE operand / -c / -t; "
           "oracle: identical exit status in all, identical output bytes whenever the status is 0 (-t: status only); distinct_nontrivial = distinct input digests that have at least one block";
  }
  Case gen(uint64_t seed, int tier) const override {
    Rng rng(seed);
    Case c; c.prop = "C09";
    Bytes plain; int validity;
    int fillW = rng.below(12) == 0 ? 2 + (int)rng.below(3) : 0;     // queue-filler input: the configurations then disagree on the exit status if a scheduler queue overflows for some worker counts only
    if (fillW) { c.data = queue_filler(rng, fillW, &c.data_desc); validity = bz::V_VALID; plain = bz::refdec(c.data).out; }
    else c.data = some_compressed(rng, tier, &plain, &c.data_desc, &validity);
    c.p["validity"] = validity;
    int K = tier ? 12 + (int)rng.below(5) : 6;
    for (int k = 0; k < K; k++) {
      RunCfg r = decompress_cfg(rng, k == 0 ? 1 : fillW && rng.below(3) ? fillW : random_workers(rng), k != 0, c.data.size(), plain.size());
      if (fillW && k != 0 && rng.below(4)) stall_a_worker(rng, r);
      if (k == 0) { r.sched = sim::Sched(); r.sched.policy = sim::P_DEFAULT; }
      else {
        if (rng.below(10) == 0) use_default_workers(r);
        switch (rng.below(6)) {
        case 0: r.argv.push_back("f.bz2"); c.p["m" + std::to_string(k)] = 1; break;           // FILE operand -> f
        case 1: r.argv.push_back("-c"); r.argv.push_back("f.bz2"); c.p["m" + std::to_string(k)] = 2; break;
        case 2: r.argv.push_back("-t"); c.p["m" + std::to_string(k)] = 3; break;
        default: break;
        }
      }
      c.runs.push_back(r);
    }
    return c;
  }
  Verdict eval(const Case &c, Ctx &ctx) const override {
    std::string ref_status; Bytes ref_out; bool ref_ok = false;
    size_t plain_guess = 0;
    for (size_t k = 0; k < c.runs.size(); k++) {
      RunCfg r = c.runs[k];
      auto it = c.p.find("m" + std::to_string(k));
      int mode = it == c.p.end() ? 0 : (int)it->second;
      std::vector<FileSpec> files;
      if (mode == 1 || mode == 2) { FileSpec f; f.name = "f.bz2"; f.data = c.data; files.push_back(f); }
      r.step_budget = budget_for(c.data.size(), r.in_granul ? r.in_granul : 262144, std::max<size_t>(plain_guess, c.data.size() * 4), r.out_granul ? r.out_granul : 900000, 64);
      sim::Result a = exec(r, (mode == 1 || mode == 2) ? Bytes() : c.data, files, ctx);
      if (Verdict v = global_monitors(a, "decompression"); !v.ok()) return v;
      std::string status = cls_of_exit(a);
      Bytes out;
      bool have_out = true;
      if (mode == 1) { const sim::Inode *o = a.world.lookup("f"); if (o) out = o->data; else have_out = false; }
      else if (mode == 3) have_out = false;
      else out = a.out;
      if (k == 0) { ref_status = status; ref_out = out; ref_ok = a.exited(0); plain_guess = out.size(); continue; }
      if (status != ref_status)
        return Verdict::fail("status-differs", "configuration " + std::to_string(k) + " (" + r.brief() + ") ended with " + a.describe() + " but the reference configuration ended with " + ref_status);
      if (ref_ok && mode == 1 && !have_out) return Verdict::fail("no-output-file", "status 0 but output file f is missing (" + r.brief() + ")");
      if (ref_ok && have_out && out != ref_out) {
        size_t d = 0; while (d < out.size() && d < ref_out.size() && out[d] == ref_out[d]) d++;
        return Verdict::fail("output-differs", "configuration " + std::to_string(k) + " (" + r.brief() + ") wrote " + std::to_string(out.size()) + " bytes, reference " + std::to_string(ref_out.size()) + ", first difference at byte " + std::to_string(d));
      }
    }
    if (ctx.st) {
      ctx.st->distinct("nontrivial", sim::hash_bytes(c.data.data(), c.data.size()));
      ctx.st->inc(std::string("kind.") + (c.p.at("validity") == bz::V_VALID ? "valid" : c.p.at("validity") == bz::V_INVALID ? "invalid" : "documented-exception"));
      ctx.st->inc("kind.reference-status " + ref_status);
      add_sample(ctx, c);
    }
    return Verdict();
  }
};
static Registrar r09(new C09);

// ===================================================================== C11
// kinds: 0 compress default, 1 compress sequential, 2 decompress, 3 copy (-cdf)
// More tiny blocks than unord_q (17W-3 entries) or order_q can hold: with a worker stalled on the in-order block the others run into
// every reservation limit of the decompression scheduler (added after seeded changes C08-2/C11-2, which no older shape reached).
static Bytes queue_filler(Rng &rng, int W, std::string *desc) {
  int nb = 17 * W - 4 + (int)rng.below(16);
  std::vector<bz::StreamSpec> ss(1 + rng.below(3));
  if (rng.below(2)) { bz::BlockSpec bs; bs.plain = bz::random_block_plain(rng, 2000); bs.ntables = 2 + (int)rng.below(5); ss[0].blocks.push_back(bs); }
  for (int b = 0; b < nb; b++) { bz::BlockSpec bs; bs.plain = bz::random_block_plain(rng, 1 + rng.below(24)); bs.ntables = 2; ss[rng.below(ss.size())].blocks.push_back(bs); }
  for (auto &s : ss) s.level = 1 + (int)rng.below(9);
  if (desc) *desc = "queue-filler " + std::to_string(nb) + " blocks";
  return bz::genstream(ss, Bytes(), rng).bytes;
}
static void stall_a_worker(Rng &rng, RunCfg &r) {
  static const uint32_t wm[] = {1u << sim::FC_PRIMARY, 1u << sim::FC_WORKER, 64, 128};
  r.in_granul = 0;
  if (rng.below(2)) { r.sched.policy = sim::P_STARVE; r.sched.param = wm[rng.below(4)]; r.sched.stall_k = 0; }
  else { r.sched.stall_task = "retrieve"; r.sched.stall_k = 1 + (uint32_t)rng.below(3); r.sched.stall_len = 2000u << rng.below(4); }    // the worker that decodes one of the first blocks in stream order sleeps
}

struct C11 : Driver {
  const char *prop() const override { return "C11"; }
  const char *level() const override { return "exploration"; }
  const char *variants(int) const override { return "plain ndebug/4 preempt/4"; }   // ndebug: assertion-free build = the shipped semantics; preempt: decision points inside unsynchronised code too
  uint64_t ncases(int tier) const override { return tier ? 600000 : 50000; }
  std::string rule() const override {
    return "case = one simulated run of compression (default or --sequential; 0..40 chunks, chunks that split into several blocks, tiny last chunks), decompression (0..60 blocks, blocks that emit many output buffers, "
           "blocks spanning many input blocks, spurious header patterns, trailing garbage) or -cdf copy, -n 1..16, under an adversarial seeded schedule (starved writer/reader/main/worker subsets, PCT, sticky, phases, spurious wake-ups); "
           "invariants checked at every decision point and task boundary: queue size <= allocated capacity (capacity read from the allocator, not from the formula), counters within range, "
           "lbzip2's own conservation asserts; liveness: no state with every thread blocked, termination within the step budget; order: exit 0 and output equals the reference. "
           "distinct_nontrivial = distinct interleaving hashes (sequence of (thread class, operation)) among runs with >= 1 preemption";
  }
  Case gen(uint64_t seed, int tier) const override {
    Rng rng(seed);
    Case c; c.prop = "C11";
    int kind = (int)rng.below(10);
    kind = kind < 3 ? 0 : kind < 5 ? 1 : kind < 9 ? 2 : 3;
    c.p["kind"] = kind;
    int W = random_workers(rng);
    RunCfg r;
    if (kind <= 1) {
      int level = rng.below(6) ? 1 : 1 + (int)rng.below(3);
      size_t chunk = (size_t)level * 100000;
      // shapes
      size_t nchunks = rng.below(4) ? rng.below(6) : rng.below(tier ? 41 : 16);
      Bytes d;
      int shape = (int)rng.below(5);
      const char *sn = "";
      switch (shape) {
      case 0: sn = "uniform"; d = Bytes(nchunks * chunk + rng.below(3) * rng.below(chunk), 'a'); break;     // trivially sortable, huge runs
      case 1: { sn = "split-chunks"; size_t n = nchunks * chunk + rng.below(chunk); unsigned char ch = 1; while (d.size() < n) { d.append(4, (char)ch); ch = ch % 250 + 1; } d.resize(n); break; }   // RLE expands 5/4: every chunk splits
      case 2: sn = "periodic"; d = gen::periodic(rng, nchunks * chunk + 1 + rng.below(7)); break;
      case 3: { sn = "tiny-tail"; d = gen::periodic(rng, nchunks * chunk); d.append(rng.below(3), 'q'); break; }
      default: sn = "random3"; d = gen::random_bytes(rng, nchunks * chunk / 2 + rng.below(chunk), 3); break;
      }
      if (d.size() > (tier ? 4200000u : 1700000u)) d.resize(tier ? 4200000 : 1700000);
      c.data = d; c.data_desc = std::string(sn) + " " + std::to_string(d.size()) + "B";
      c.p["level"] = level;
      r = compress_cfg(rng, level, kind == 1, W, true);
    } else if (kind == 2) {
      Bytes plain; int validity;
      int shape = (int)rng.below(7);
      if (shape == 6) {   // queue filler
        W = 2 + (int)rng.below(3);
        c.data = queue_filler(rng, W, &c.data_desc);
        c.p["filler"] = 1;
      } else if (shape == 0) {   // many tiny blocks
        int nb = (int)rng.below(tier ? 61 : 30);
        std::vector<bz::StreamSpec> ss(1 + rng.below(3));
        for (int b = 0; b < nb; b++) { bz::BlockSpec bs; bs.plain = bz::random_block_plain(rng, 40); bs.ntables = 2 + (int)rng.below(3); ss[rng.below(ss.size())].blocks.push_back(bs); }
        for (auto &s : ss) s.level = 1 + (int)rng.below(9);
        c.data = bz::genstream(ss, rng.below(4) ? Bytes() : bz::random_trailing(rng), rng).bytes;
        c.data_desc = "many-tiny-blocks " + std::to_string(nb);
      } else if (shape == 1) {   // blocks that expand into many output buffers
        Bytes p(100000 + rng.below(800000), 'z');
        for (int i = 0; i < 20; i++) p[rng.below(p.size())] = (char)rng.below(256);
        c.data = bz::libbz2_encode(p, 9);
        c.data_desc = "expanding " + std::to_string(p.size()) + "B";
        c.p["outhint"] = (int64_t)p.size();
      } else if (shape == 2) {   // blocks spanning many input blocks
        Bytes p = gen::random_bytes(rng, 20000 + rng.below(100000), 256);
        c.data = lib_multistream(rng, p, 1 + (int)rng.below(3));
        c.data_desc = "incompressible " + std::to_string(p.size()) + "B";
        c.p["smallin"] = 1;
      } else {
        c.data = some_compressed(rng, tier, &plain, &c.data_desc, &validity);
      }
      bz::DecResult dr = bz::refdec(c.data);
      size_t outhint = dr.out.size();
      r = decompress_cfg(rng, W, true, c.data.size(), std::max<size_t>(outhint, 1));
      if (c.p.count("smallin") && rng.below(2)) r.in_granul = 4u << rng.below(6);
      while (r.in_granul && c.data.size() / r.in_granul > 20000) r.in_granul *= 4;
      if (rng.below(4) == 0) r.argv.push_back("-t");
    } else {
      size_t G = rng.below(3) ? (4u << rng.below(10)) : 0;
      size_t n = rng.below(4) == 0 ? rng.below(6) : rng.below((G ? G : 65536) * 6);
      c.data = gen::random_bytes(rng, n, 256);
      if (c.data.size() >= 4 && c.data[0] == 'B' && c.data[1] == 'Z' && c.data[2] == 'h') c.data[0] = 'b';
      c.data_desc = "copy " + std::to_string(n) + "B";
      r.argv = {"-n", std::to_string(W), "-cdf"};
      r.copy_granul = G;
      r.sched = random_sched(rng);
      r.in_kind = rng.below(2) ? sim::K_PIPE : sim::K_FILE;
      r.in_frag = random_frag(rng);
    }
    // adversarial schedules over-weighted
    if (rng.below(2)) { r.sched.policy = sim::P_STARVE; r.sched.param = sim::starve_masks[rng.below(sim::n_starve_masks)]; }
    if (c.p.count("filler") && rng.below(4)) stall_a_worker(rng, r);
    c.runs.push_back(r);
    return c;
  }
  Verdict eval(const Case &c, Ctx &ctx) const override {
    if (c.runs.empty()) return Verdict();
    RunCfg r = c.runs[0];
    int kind = (int)c.p.at("kind");
    Bytes expect; bool expect_ok = true; int validity = bz::V_VALID;
    if (kind == 2) {
      bz::DecResult dr = bz::refdec(c.data);
      validity = dr.verdict; expect = dr.out; expect_ok = dr.verdict == bz::V_VALID;
      r.step_budget = budget_for(c.data.size(), r.in_granul ? r.in_granul : 262144, dr.out.size() + 1000, r.out_granul ? r.out_granul : 900000, 200);
    } else r.step_budget = budget_for(c.data.size(), kind == 3 ? (r.copy_granul ? r.copy_granul : 65536) : 100000, c.data.size(), 100000, 8);
    sim::Result a = exec(r, c.data, {}, ctx);
    if (Verdict v = global_monitors(a, kind <= 1 ? "compression" : kind == 2 ? "decompression" : "copy"); !v.ok()) return v;
    bool test_only = std::find(r.argv.begin(), r.argv.end(), "-t") != r.argv.end();
    if (kind <= 1) {
      if (!a.exited(0)) return Verdict::fail("status", "compression ended with " + a.describe());
      bz::LibResult l = bz::libbz2_decode(a.out);
      if (!l.ok || l.out != c.data) return Verdict::fail("order", "compressed output does not decode to the input (blocks lost, duplicated or out of order): libbz2 status " + std::to_string(l.err));
    } else if (kind == 2) {
      if (expect_ok) {
        if (!a.exited(0)) return Verdict::fail("status", "decompression of a valid file ended with " + a.describe());
        if (!test_only && a.out != expect) return Verdict::fail("order", "decompressed output differs from the reference decoding (blocks lost, duplicated or out of order)");
      }
      // (what an invalid file must produce is C05/C07's business; here it only has to terminate cleanly)
    } else {
      if (!a.exited(0)) return Verdict::fail("status", "copy ended with " + a.describe());
      if (a.out != c.data) return Verdict::fail("order", "copied output differs from the input");
    }
    if (ctx.st) {
      if (a.preemptions >= 1) ctx.st->distinct("nontrivial", a.ihash);
      static const char *kn[] = {"compress", "compress-sequential", "decompress", "copy"};
      ctx.st->inc(std::string("kind.") + kn[kind]);
      add_sample(ctx, c, obs_json(a));
    }
    return Verdict();
  }
};
static Registrar r11(new C11);

// ===================================================================== mixed workload for C08 / C12
static Case gen_mixed(uint64_t seed, int tier, const char *prop, bool threads_only) {
  Rng rng(seed);
  Case c; c.prop = prop;
  int kind = (int)rng.below(10);
  kind = kind < 3 ? 0 : kind < 6 ? 1 : kind < 8 ? 2 : 3;     // 0 compress(+decompress), 1 decompress anything, 2 copy, 3 FILE operands (main.c, signals.c paths)
  c.p["kind"] = kind;
  int W = threads_only ? 2 + (int)rng.below(7) : random_workers(rng);
  if (kind == 0) {
    int level = 1 + (int)rng.below(tier ? 9 : 3);
    c.p["level"] = level;
    c.data = gen::input(rng, level, tier ? 900000 : 300000, &c.data_desc);
    c.runs.push_back(compress_cfg(rng, level, rng.below(2), W, true));
    c.runs.push_back(decompress_cfg(rng, threads_only ? 2 + (int)rng.below(7) : random_workers(rng), true, c.data.size() / 2 + 100, c.data.size()));
  } else if (kind == 1) {
    Bytes plain; int validity;
    bool filler = rng.below(8) == 0, planted = !filler && rng.below(4) == 0;
    if (filler) { W = 2 + (int)rng.below(3); c.data = queue_filler(rng, W, &c.data_desc); }
    else if (planted) {   // spurious block-header patterns (C10's generator): the discard paths of the speculative decoder under the sanitizers too (seeded change C08-3)
      int pk = 0; c.data = bz::gen_planted(rng, &pk).bytes; c.data_desc = "planted-pattern kind " + std::to_string(pk);
      if (W < 2) W = 2 + (int)rng.below(4);
    }
    else c.data = some_compressed(rng, tier, &plain, &c.data_desc, &validity);
    c.runs.push_back(decompress_cfg(rng, W, true, c.data.size(), planted ? 4000 : plain.size() + 1));
    if (planted) { static const size_t ig[] = {4, 8, 12, 16, 32, 64, 128, 256, 1024, 0}; c.runs.back().in_granul = ig[rng.below(10)]; }
    if (filler && rng.below(4)) stall_a_worker(rng, c.runs.back());
    if (rng.below(4) == 0) c.runs.back().argv.push_back("-t");
  } else if (kind == 2) {
    size_t G = rng.below(2) ? (4u << rng.below(10)) : 0;
    c.data = gen::random_bytes(rng, rng.below((G ? G : 65536) * 4), 256);
    if (c.data.size() >= 3 && c.data[0] == 'B' && c.data[1] == 'Z') c.data[0] = 'b';
    c.data_desc = "copy " + std::to_string(c.data.size()) + "B";
    RunCfg r; r.argv = {"-n", std::to_string(W), "-cdf"}; r.copy_granul = G; r.sched = random_sched(rng); r.in_frag = random_frag(rng);
    c.runs.push_back(r);
  } else {
    // FILE operands: admission, naming, metadata, input removal, the error path through bailout()/SIGUSR1
    bool dec = rng.below(2);
    RunCfg r; r.argv = {"-n", std::to_string(W)};
    if (dec) r.argv.push_back("-d"); else r.argv.push_back("-1");
    if (rng.below(2)) r.argv.push_back("-k");
    if (rng.below(4) == 0) r.argv.push_back("-v");
    if (rng.below(5) == 0) r.argv.push_back("-f");
    int nop = 1 + (int)rng.below(3);
    for (int i = 0; i < nop; i++) {
      FileSpec f; f.name = std::string(1, (char)('a' + i)) + (dec ? ".bz2" : ".txt");
      Bytes plain = gen::random_bytes(rng, rng.below(3) ? rng.below(3000) : rng.below(150000), 1 + (unsigned)rng.below(256));
      f.data = dec ? bz::libbz2_encode(plain, 1 + (int)rng.below(9)) : plain;
      if (dec && rng.below(4) == 0 && f.data.size() > 14) f.data[10 + rng.below(f.data.size() - 10)] ^= 0x10;    // corrupt: fatal error in a worker
      if (rng.below(5) == 0) f.nlink_extra = 1;
      if (rng.below(6) != 0) c.files.push_back(f);    // otherwise missing
      if (rng.below(6) == 0) { FileSpec o; o.name = dec ? f.name.substr(0, 1) : f.name + ".bz2"; o.data = "x"; c.files.push_back(o); }
      r.argv.push_back(f.name);
    }
    r.sched = random_sched(rng);
    c.data_desc = std::string(dec ? "decompress " : "compress ") + std::to_string(nop) + " FILE operands";
    c.runs.push_back(r);
  }
  return c;
}
static Verdict eval_mixed(const Case &c, Ctx &ctx, bool heap_monitor) {
  if (c.runs.empty()) return Verdict();
  int kind = (int)c.p.at("kind");
  RunCfg r0 = c.runs[0];
  r0.step_budget = 0;
  sim::Result a = exec(r0, c.data, c.files, ctx);
  if (heap_monitor && !a.monitor.empty() && a.monitor.compare(0, 5, "heap:") == 0) return Verdict::fail("heap", a.monitor + " -- " + a.describe());
  if (kind == 0 && c.runs.size() > 1 && a.exited(0)) {
    sim::Result b = exec(c.runs[1], a.out, {}, ctx);
    if (heap_monitor && !b.monitor.empty() && b.monitor.compare(0, 5, "heap:") == 0) return Verdict::fail("heap", b.monitor + " -- " + b.describe());
    if (ctx.st && (!b.exited(0) || b.out != c.data)) ctx.st->inc("oracle.other_anomaly_not_judged_here");
  }
  if (ctx.st) {
    ctx.st->distinct("nontrivial", sim::fnv(a.ihash, sim::hash_bytes(c.data.data(), c.data.size())));
    static const char *kn[] = {"compress+decompress", "decompress", "copy", "file-operands"};
    ctx.st->inc(std::string("kind.") + kn[kind]);
    add_sample(ctx, c, obs_json(a));
  }
  return Verdict();
}

struct C12 : Driver {
  const char *prop() const override { return "C12"; }
  const char *level() const override { return "exploration"; }
  uint64_t ncases(int tier) const override { return tier ? 12000 : 1000; }
  const char *variants(int) const override { return "tsan"; }
  std::string rule() const override {
    return "case = compression (both modes) followed by decompression, decompression of valid/invalid/planted streams (incl. error exits), or -cdf copy, -n 2..8, seeded schedule, executed in the ThreadSanitizer build "
           "where every simulated thread is a TSan fiber, fiber switches carry no happens-before edge and only the simulator's mutex/flockfile/create/join/kill shims report synchronisation; "
           "oracle: zero TSan reports (a report ends the worker with exit code 77 and is attributed to the case). distinct_nontrivial = distinct (interleaving hash, input digest) pairs";
  }
  std::vector<std::string> assumptions() const override { return {"TSan's vector-clock analysis over the executed accesses; accesses on code paths that no run executed are not judged"}; }
  Case gen(uint64_t seed, int tier) const override { return gen_mixed(seed, tier, "C12", true); }
  Verdict eval(const Case &c, Ctx &ctx) const override { return eval_mixed(c, ctx, false); }
};
static Registrar r12(new C12);

struct C08 : Driver {
  const char *prop() const override { return "C08"; }
  const char *level() const override { return "exploration"; }
  uint64_t ncases(int tier) const override { return tier ? 20000 : 3000; }
  const char *variants(int tier) const override { return tier ? "asan asan-ndebug vg/40" : "asan asan-ndebug/2 vg/12"; }   // vg: plain build under valgrind memcheck (uninitialised-value decisions, uninitialised output bytes)
  std::string rule() const override {
    return "case = compression+decompression, decompression of valid/defective/truncated/planted streams with input block sizes down to 4 bytes and output buffers down to 1 byte, or -cdf copy, any -n, seeded schedule, "
           "executed in the AddressSanitizer+UndefinedBehaviorSanitizer build (assertions on, and again with -DNDEBUG) and, for a fraction of the cases, as the plain build under valgrind memcheck (variant vg: fresh heap blocks and recycled "
           "thread stacks are marked undefined, every buffer handed to write() is checked for definedness); fresh heap blocks are filled with a per-run junk byte in the native variants; "
           "oracle: zero sanitizer/memcheck reports (a report ends the worker with exit code 77 and is attributed to the case) and intact heap canaries. distinct_nontrivial = distinct (interleaving hash, input digest) pairs";
  }
  std::vector<std::string> assumptions() const override { return {"uninitialised-value decisions are detected by valgrind memcheck on the vg share of the cases only (about 1 case in 12 quick, 1 in 40 thorough; memcheck is 20-50x slower); the other cases see them only indirectly through junk-filled heap blocks (C03/C09 compare results)"}; }
  Case gen(uint64_t seed, int tier) const override { return gen_mixed(seed, tier, "C08", false); }
  Verdict eval(const Case &c, Ctx &ctx) const override { return eval_mixed(c, ctx, true); }
};
static Registrar r08(new C08);

// ===================================================================== C13
// Frozen bounds on peak live heap (bytes), fixed when the check was written (see DESIGN.md C13);
// deliberately not derived from the tree under test.
// compression: 2W input chunks of C = level*100000 bytes, W encoders of about 5C + 0.33 MB, 2W+2 output blocks of about 1.01C
static size_t bound_compress(int W, int level) { size_t C = (size_t)level * 100000; return (size_t)W * (C * 92 / 10 + 360000) + C * 22 / 10 + 200000; }
static size_t bound_decompress(int W) { return (size_t)W * 20700000 + 2500000; }

struct C13 : Driver {
  const char *prop() const override { return "C13"; }
  const char *level() const override { return "exploration"; }
  uint64_t ncases(int tier) const override { return tier ? 4000 : 480; }
  std::string rule() const override {
    return "case = a group of runs with input sizes n, 2n, 4n, 8n (compression at level 1 or 9; decompression of highly expanding streams up to 48 MB of output, concatenated bombs; 1, 2, 4, 8 FILE operands in one invocation whose ignored trailing data contains complete highly expanding blocks that are decoded speculatively and discarded) at one worker count from {1,2,4,8} "
           "under one adversarial scheduling policy (writer starved until every output slot is full, reader racing ahead, workers starved); measure = peak live heap bytes of the simulated process from the tracking allocator; "
           "oracle: peak <= frozen linear bound(W) for every run at every size, and the live heap left at exit does not grow with the input size (<= 64 KiB more at 8n than at n). distinct_nontrivial = distinct (mode, W, policy parameter, size class) tuples";
  }
  std::vector<std::string> assumptions() const override { return {"peak live heap is the schedule-dependent part of resident memory; thread stacks and program text are constant per thread and excluded; real RSS is not measured"}; }
  Case gen(uint64_t seed, int tier) const override {
    Rng rng(seed);
    Case c; c.prop = "C13";
    static const int ws[] = {1, 2, 4, 8};
    int W = ws[rng.below(4)];
    int mode = (int)rng.below(5);   // 0 compress, 1 decompress, 2 decompress several FILE operands whose trailing garbage holds decodable bomb blocks
    mode = mode < 2 ? 0 : mode < 4 ? 1 : 2;
    if (mode == 2 && W == 1) W = 2;
    int level = rng.below(2) ? 1 : 9;
    if (tier == 0 && level == 9 && W == 8) W = 4;
    c.p["W"] = W; c.p["mode"] = mode; c.p["level"] = level;
    c.p["dataseed"] = (int64_t)(rng.next() >> 1);
    c.p["shape"] = (int64_t)rng.below(5);      // (decompression) 4: legacy randomised blocks of more than 720000 symbols, a decoder path nothing else here enters (seeded change C13-4)
    sim::Sched s = random_sched(rng, false);
    if (rng.below(3)) { s.policy = sim::P_STARVE; static const uint32_t m[] = {1u << sim::FC_SINK, 1u << sim::FC_SINK, (1u << sim::FC_SINK) | (1u << sim::FC_WORKER), 1u << sim::FC_SOURCE, 128}; s.param = m[rng.below(5)]; }
    for (int k = 0; k < 4; k++) {
      RunCfg r;
      if (mode == 0) r = compress_cfg(rng, level, rng.below(2), W, false);
      else r = decompress_cfg(rng, W, false, 1000, 1000);
      if (mode == 2) { r.argv.push_back("-c"); for (int i = 0; i < (1 << k); i++) r.argv.push_back("op" + std::to_string(i) + ".bz2"); r.out_kind = sim::K_NULL; }
      r.sched = s; r.sched.seed = s.seed + k;
      c.runs.push_back(r);
    }
    return c;
  }
  static Bytes make_input(const Case &c, int k) {
    Rng rng((uint64_t)c.p.at("dataseed"));
    int mode = (int)c.p.at("mode"), level = (int)c.p.at("level"), W = (int)c.p.at("W"), shape = (int)c.p.at("shape");
    size_t mult = (size_t)1 << k;
    if (mode == 0) {
      size_t base = (size_t)level * 100000 * (size_t)std::max(1, W / 2) + 5000;
      if (level == 9) base = 900000;
      size_t n = base * mult;
      if (shape == 0) return Bytes(n, 'x');
      if (shape == 1) return gen::periodic(rng, n);
      if (shape == 2) return gen::random_bytes(rng, n, 4);
      return gen::random_bytes(rng, n, 256);       // incompressible: output blocks as large as the input chunks
    }
    if (shape == 4) {      // n, 2n, 4n, 8n copies of one stream holding a randomised block of 720001-900000 symbols
      Bytes one = bz::gen_full_block(rng, 720001 + rng.below(179999), 9, rng.below(2), true).bytes, z;
      for (size_t i = 0; i < 2 * mult; i++) z += one;
      return z;
    }
    // decompression: streams that expand enormously
    size_t plain_n = (size_t)6000000 * mult;    // 6, 12, 24, 48 MB
    Bytes z;
    size_t piece = shape == 0 ? plain_n : shape == 3 ? 900000 : 3000000;
    for (size_t off = 0; off < plain_n; off += piece) {
      Bytes p(std::min(piece, plain_n - off), shape == 2 ? (char)0xFF : 'a');
      z += bz::libbz2_encode(p, 9);
    }
    return z;
  }
  // an operand that decodes to a few bytes but whose ignored trailing data holds complete, highly expanding blocks:
  // the scanners find them, helpers decode them speculatively (3.6 MB each) and the results must be thrown away
  static Bytes bomb_operand(const Case &c) {
    Rng rng((uint64_t)c.p.at("dataseed"));
    Bytes z = bz::libbz2_encode(gen::random_bytes(rng, 200 + rng.below(2000), 256), 9);
    z.push_back('\0');
    Bytes bomb = bz::libbz2_encode(Bytes(900000 * 4, 'b'), 9);
    int copies = 2 + (int)rng.below(5);
    for (int i = 0; i < copies; i++) z += bomb.substr(4);     // start right at a block header
    return z;
  }
  Verdict eval(const Case &c, Ctx &ctx) const override {
    int W = (int)c.p.at("W"), mode = (int)c.p.at("mode"), level = (int)c.p.at("level");
    size_t bound = mode == 0 ? bound_compress(W, level) : bound_decompress(W);
    size_t first_peak = 0, first_final = 0; unsigned first_unreaped = 0;
    Bytes operand; if (mode == 2) operand = bomb_operand(c);
    for (size_t k = 0; k < c.runs.size(); k++) {
      Bytes in; if (mode != 2) in = make_input(c, (int)k);
      RunCfg r = c.runs[k];
      if (mode == 1) r.argv.push_back("-t");      // output bytes are not needed; -t keeps the writer path (slots are still cycled)
      std::vector<FileSpec> files;
      if (mode == 2) for (int i = 0; i < (1 << k); i++) { FileSpec f; f.name = "op" + std::to_string(i) + ".bz2"; f.data = operand; files.push_back(f); }
      sim::Result a = exec(r, in, files, ctx);
      if (Verdict v = global_monitors(a, "run"); !v.ok()) return v;
      if (!a.exited(0)) return Verdict::fail("status", "run ended with " + a.describe());
      if (ctx.st) { ctx.st->max(std::string("peak.") + (mode == 2 ? "decompress-operands" : mode ? "decompress" : "compress" + std::to_string(level)) + ".W" + std::to_string(W), a.peak_heap); ctx.st->max(std::string("bound.") + (mode == 2 ? "decompress-operands" : mode ? "decompress" : "compress" + std::to_string(level)) + ".W" + std::to_string(W), bound); }
      if (a.peak_heap > bound)
        return Verdict::fail("bound-exceeded", "peak live heap " + std::to_string(a.peak_heap) + " bytes exceeds the frozen bound " + std::to_string(bound) + " for W=" + std::to_string(W) + " (" + r.brief() + ", input " + std::to_string(in.size()) + " bytes)");
      // growth with size: what is still allocated when the process exits must not depend on the input size
      // (a per-block buffer that is never released shows up here long before it breaks the bound)
      // thread state is memory too: a thread that ended but was never joined or detached keeps its stack (8 MiB of address space, some of
      // it resident) - their number must not grow with the input or the operand count either (seeded change C13-5)
      if (k == 0) first_unreaped = a.unreaped_threads;
      else if (a.exited(0) && a.unreaped_threads > first_unreaped)
        return Verdict::fail("grows-with-size", "threads that ended without being joined or detached: " + std::to_string(first_unreaped) + " at size n, " + std::to_string(a.unreaped_threads) + " at " + std::to_string(1 << k) + "n - their stacks are never released (" + r.brief() + ")");
      if (k == 0) { first_peak = a.peak_heap; first_final = a.final_heap; }
      else if (a.final_heap > first_final + 65536)
        return Verdict::fail("grows-with-size", "live heap at exit grew from " + std::to_string(first_final) + " to " + std::to_string(a.final_heap) + " bytes when the input grew " + std::to_string(1 << k) + "-fold: memory that is never released (" + r.brief() + ")");
      if (ctx.st) ctx.st->distinct("nontrivial", sim::fnv(sim::fnv(sim::fnv(mode * 100 + level, W), c.runs[0].sched.param * 8 + c.runs[0].sched.policy), k));
    }
    if (ctx.st) add_sample(ctx, c, "\"bound\": " + std::to_string(bound) + ", \"first_peak\": " + std::to_string(first_peak));
    return Verdict();
  }
};
static Registrar r13(new C13);

}  // namespace props
